//! Walk of the raw arena dump (verification hook): structural invariants (C15 well-formedness,
//! C16 partition, C04 counter) and the canonical state key.

use prefix_trie::verif::ArenaDump;

use crate::model::{bit, covers, mask128};
use crate::ptypes::GK;
use crate::universe::{with_rep, Universe};
use crate::viol::Viol;

#[derive(Clone, Debug, PartialEq, Eq)]
pub struct WNode {
    pub slot: usize,
    /// network form
    pub key: GK,
    /// raw stored representation, left aligned
    pub repr: u128,
    pub has_value: bool,
    pub left: Option<usize>,
    pub right: Option<usize>,
    pub depth: usize,
}

#[derive(Clone, Debug, Default)]
pub struct Walk {
    /// reachable nodes in pre-order (node, left subtree, right subtree)
    pub nodes: Vec<WNode>,
    pub free_len: usize,
    pub arena_len: usize,
    pub valued: usize,
    /// raw free list and cached counter (only used to keep tainted states apart)
    pub free: Vec<usize>,
    pub count: usize,
}

fn la(x: u128, width: u8) -> u128 {
    if width == 128 {
        x
    } else {
        x << (128 - width as u32)
    }
}

/// Walk the dump and check every structural invariant. Returns the walk (possibly partial) and
/// the violations found. If `fatal` is set in the result, the walk must not be used for a key.
pub fn walk(d: &ArenaDump, width: u8) -> (Walk, Vec<Viol>, bool) {
    let mut out = vec![];
    let mut w = Walk {
        nodes: vec![],
        free_len: d.free.len(),
        arena_len: d.arena_len,
        valued: 0,
        free: d.free.clone(),
        count: d.count,
    };
    let mut fatal = false;
    if d.arena_len == 0 || d.slots.len() != d.arena_len {
        out.push(Viol::new("C15", "arena", "no-root", format!("arena_len={} slots={}", d.arena_len, d.slots.len())));
        return (w, out, true);
    }
    let n = d.arena_len;
    let mut seen = vec![false; n];
    // iterative pre-order: stack of (slot, depth, parent key, expected side)
    let mut stack: Vec<(usize, usize, Option<(GK, bool)>)> = vec![(0, 0, None)];
    while let Some((s, depth, par)) = stack.pop() {
        if s >= n {
            out.push(Viol::new("C15", "arena", "link-out-of-range", format!("slot {s} >= arena_len {n}")));
            fatal = true;
            continue;
        }
        if seen[s] {
            out.push(Viol::new("C15", "arena", "node-reached-twice", format!("slot {s} is reachable along two paths (cycle or sharing)")));
            fatal = true;
            continue;
        }
        seen[s] = true;
        let sl = &d.slots[s];
        let key: GK = (la(sl.mask, width), sl.len);
        let repr = la(sl.repr, width);
        if sl.len > width {
            out.push(Viol::new("C15", "arena", "len-exceeds-width", format!("slot {s} len {}", sl.len)));
        }
        if key.0 & !mask128(key.1) != 0 {
            out.push(Viol::new("C17", "Prefix::mask", "mask-has-host-bits", format!("slot {s} mask {:#x} len {}", key.0, key.1)));
        }
        match par {
            None => {
                if sl.len != 0 {
                    out.push(Viol::new("C15", "arena", "root-not-zero-length", format!("root len {}", sl.len)));
                }
            }
            Some((pk, right)) => {
                if !(key.1 > pk.1) {
                    out.push(Viol::new("C15", "arena", "child-not-longer", format!("slot {s}: child {:x?} parent {:x?}", key, pk)));
                    fatal = true;
                } else if !covers(pk, key) {
                    out.push(Viol::new("C15", "arena", "child-not-covered", format!("slot {s}: child {:x?} parent {:x?}", key, pk)));
                } else if bit(key, pk.1) != right {
                    out.push(Viol::new("C15", "arena", "child-on-wrong-side", format!("slot {s}: child {:x?} parent {:x?} linked right={right}", key, pk)));
                }
            }
        }
        if depth > width as usize {
            out.push(Viol::new("C15", "arena", "path-too-long", format!("depth {depth}")));
        }
        if sl.has_value {
            w.valued += 1;
        }
        w.nodes.push(WNode {
            slot: s,
            key,
            repr,
            has_value: sl.has_value,
            left: sl.left,
            right: sl.right,
            depth,
        });
        // push right first so that left is visited first
        if let Some(r) = sl.right {
            stack.push((r, depth + 1, Some((key, true))));
        }
        if let Some(l) = sl.left {
            stack.push((l, depth + 1, Some((key, false))));
        }
    }
    // C16 partition
    let mut in_free = vec![false; n];
    for &f in &d.free {
        if f >= n {
            out.push(Viol::new("C16", "free-list", "free-slot-out-of-range", format!("free slot {f} >= arena_len {n}")));
            continue;
        }
        if f == 0 {
            out.push(Viol::new("C16", "free-list", "root-on-free-list", String::new()));
        }
        if in_free[f] {
            out.push(Viol::new("C16", "free-list", "slot-freed-twice", format!("slot {f} twice on the free list")));
        }
        in_free[f] = true;
        if seen[f] {
            out.push(Viol::new("C16", "free-list", "slot-in-tree-and-free", format!("slot {f} is reachable and on the free list")));
        }
    }
    for s in 0..n {
        if !seen[s] && !in_free[s] {
            out.push(Viol::new("C16", "free-list", "slot-leaked", format!("slot {s} is neither in the tree nor on the free list")));
        }
    }
    // C04 via hook
    if d.count != w.valued {
        out.push(Viol::new("C04", "len", "counter-vs-valued-nodes", format!("len()={} but {} reachable nodes hold a value", d.count, w.valued)));
    }
    (w, out, fatal)
}

#[derive(Clone, Copy, Debug, PartialEq, Eq)]
pub struct KeyOpts {
    /// include the representation class of every node
    pub reps: bool,
    /// include the exact slot layout and free-list order (abstraction validation run)
    pub layout: bool,
    /// drop the free-list class (pair engines: set operations never look at the free list)
    pub no_free: bool,
}

/// canonical state key
pub fn state_key(w: &Walk, d: &ArenaDump, uni: &Universe, opts: KeyOpts) -> Box<[u8]> {
    let mut k: Vec<u8> = Vec::with_capacity(w.nodes.len() * 2 + 2);
    for nd in &w.nodes {
        let mut flags = 0u8;
        if nd.has_value {
            flags |= 1;
        }
        if nd.left.is_some() {
            flags |= 2;
        }
        if nd.right.is_some() {
            flags |= 4;
        }
        if opts.reps {
            let rep = if nd.repr == with_rep(nd.key, 0, uni.width).0 {
                0
            } else if nd.repr == with_rep(nd.key, 1, uni.width).0 {
                1
            } else {
                2
            };
            flags |= rep << 3;
        }
        match uni.key_id(nd.key) {
            Some(id) if id < 250 => {
                k.push(id as u8);
            }
            _ => {
                k.push(255);
                k.extend_from_slice(&nd.key.0.to_be_bytes());
                k.push(nd.key.1);
            }
        }
        k.push(flags);
        if opts.layout {
            k.push(nd.slot as u8);
        }
    }
    k.push(254);
    if opts.layout {
        k.push(d.arena_len as u8);
        for f in &d.free {
            k.push(*f as u8);
        }
    } else {
        k.push(if opts.no_free { 0 } else { w.free_len.min(2) as u8 });
    }
    k.into_boxed_slice()
}

/// the shape projection of a key: same as the key without representation bits and free class
pub fn shape_key(w: &Walk, uni: &Universe) -> Box<[u8]> {
    let mut k: Vec<u8> = Vec::with_capacity(w.nodes.len() * 2);
    for nd in &w.nodes {
        let flags = (nd.has_value as u8) | ((nd.left.is_some() as u8) << 1) | ((nd.right.is_some() as u8) << 2);
        match uni.key_id(nd.key) {
            Some(id) if id < 250 => k.push(id as u8),
            _ => {
                k.push(255);
                k.extend_from_slice(&nd.key.0.to_be_bytes());
                k.push(nd.key.1);
            }
        }
        k.push(flags);
    }
    k.into_boxed_slice()
}

/// canonical shape = every value-less non-root node has two children
pub fn is_canonical(w: &Walk) -> bool {
    w.nodes
        .iter()
        .all(|n| n.slot == 0 && n.depth == 0 || n.has_value || (n.left.is_some() && n.right.is_some()))
}
