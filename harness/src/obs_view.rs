//! Per-state observer suites for views: C11 (views address exactly the entries under their prefix),
//! C12 (searching from any view), C15 (well-formedness / canonical shape through the view API),
//! C13/C14 (all references of disjoint mutable views held at once).

use prefix_trie::{AsView, AsViewMut, PrefixMap, TrieView, TrieViewMut};

use crate::arena::{shape_key, walk, WNode, Walk};
use crate::expect;
use crate::explore::compare_entries;
use crate::model::{bit, covers, norm, Model, Obs};
use crate::obs::{reps, MapSt};
use crate::ops::{cap, mkp, obs, Cx};
use crate::ptypes::{PType, GK};
use crate::universe::with_rep;
use crate::viol::Viol;

fn retag(v: Option<Viol>, prop: &'static str, ctx: String) -> Option<Viol> {
    v.map(|mut v| {
        if v.prop != "C18" {
            v.prop = prop;
        }
        v.detail = format!("{ctx}: {}", v.detail);
        v
    })
}

pub fn child_pos(pos: GK, right: bool, width: u8) -> Option<GK> {
    if pos.1 >= width {
        return None;
    }
    let b = if right { 1u128 << (127 - pos.1 as u32) } else { 0 };
    Some((norm(pos).0 | b, pos.1 + 1))
}

fn view_entries<P: PType>(v: &TrieView<P, u32>, lim: usize) -> Vec<Obs> {
    v.iter().take(lim).map(|(p, v)| obs(p, v)).collect()
}

/// recursive check of left()/right() below a read-only view positioned at `pos`
fn check_sides<P: PType>(out: &mut Vec<Viol>, n: &mut u64, v: &TrieView<P, u32>, pos: GK, model: &Model, cx: &Cx, depth: usize) {
    if depth > cx.uni.width as usize + 2 {
        out.push(Viol::new("C15", "TrieView::left/right", "path-too-long", format!("descended {depth} levels below a view")));
        return;
    }
    for right in [false, true] {
        let site = if right { "TrieView::right" } else { "TrieView::left" };
        let want: Vec<Obs> = child_pos(pos, right, cx.uni.width).map(|c| model.under(c)).unwrap_or_default();
        let sv = if right { v.right() } else { v.left() };
        *n += 1;
        match sv {
            None => expect!(out, want.is_empty(), "C11", site, "side-missing", "view at {:x?}: {site}() is None but the model has {:x?} there", pos, want),
            Some(sv) => {
                let sp = norm(sv.prefix().raw());
                let cp = child_pos(pos, right, cx.uni.width);
                expect!(out, cp.map(|c| covers(c, sp)).unwrap_or(false), "C11", site, "side-not-under-view", "view at {:x?}: {site}() is positioned at {:x?}", pos, sp);
                let got = view_entries(&sv, cap(want.len()));
                if let Some(x) = retag(compare_entries(site, &got, &want), "C11", format!("view at {:x?}", pos)) {
                    out.push(x);
                }
                if cx.canonical {
                    expect!(out, !want.is_empty(), "C11", site, "empty-side-exists", "view at {:x?}: {site}() exists but holds no entry (canonical history)", pos);
                }
                if covers(pos, sp) && sp.1 > pos.1 {
                    check_sides(out, n, &sv, sp, model, cx, depth + 1);
                }
            }
        }
    }
}

fn check_sides_mut<P: PType>(out: &mut Vec<Viol>, n: &mut u64, v: TrieViewMut<P, u32>, pos: GK, model: &Model, cx: &Cx, depth: usize) {
    if depth > cx.uni.width as usize + 2 {
        return;
    }
    let wl: Vec<Obs> = child_pos(pos, false, cx.uni.width).map(|c| model.under(c)).unwrap_or_default();
    let wr: Vec<Obs> = child_pos(pos, true, cx.uni.width).map(|c| model.under(c)).unwrap_or_default();
    let (hl, hr) = (v.has_left(), v.has_right());
    *n += 3;
    expect!(out, hl || wl.is_empty(), "C11", "TrieViewMut::has_left", "side-missing", "view at {:x?}: has_left() false, model has {:x?}", pos, wl);
    expect!(out, hr || wr.is_empty(), "C11", "TrieViewMut::has_right", "side-missing", "view at {:x?}: has_right() false, model has {:x?}", pos, wr);
    if cx.canonical {
        expect!(out, hl == !wl.is_empty() && hr == !wr.is_empty(), "C11", "TrieViewMut::has_left/has_right", "empty-side-exists", "view at {:x?}: has_left={hl} has_right={hr}, model {:x?} / {:x?}", pos, wl, wr);
    }
    let (l, r) = v.split();
    expect!(out, l.is_some() == hl && r.is_some() == hr, "C11", "TrieViewMut::split", "split-vs-has-side", "view at {:x?}: split() -> ({}, {}), has_left={hl} has_right={hr}", pos, l.is_some(), r.is_some());
    for (right, sv, want) in [(false, l, wl), (true, r, wr)] {
        if let Some(mut sv) = sv {
            let site = if right { "TrieViewMut::split().1" } else { "TrieViewMut::split().0" };
            let sp = norm(sv.prefix().raw());
            let cp = child_pos(pos, right, cx.uni.width);
            expect!(out, cp.map(|c| covers(c, sp)).unwrap_or(false), "C11", site, "side-not-under-view", "view at {:x?}: side positioned at {:x?}", pos, sp);
            let got: Vec<Obs> = sv.iter_mut().take(cap(want.len())).map(|(p, v)| obs(p, v)).collect();
            if let Some(x) = retag(compare_entries(site, &got, &want), "C11", format!("view at {:x?}", pos)) {
                out.push(x);
            }
            if covers(pos, sp) && sp.1 > pos.1 {
                check_sides_mut(out, n, sv, sp, model, cx, depth + 1);
            }
        }
    }
}

/// C11: view_at / view_mut_at for every query, recursively left/right/split
pub fn views<P: PType>(st: &MapSt<P>, cx: &Cx) -> (Vec<Viol>, u64) {
    let mut out = vec![];
    let mut n = 0u64;
    let map = &st.map;
    let model = &st.model;
    let mut mc = map.clone();
    // the whole-map view always exists
    {
        let v = map.view();
        expect!(out, v.prefix().raw().1 == 0, "C11", "AsView::view", "root-prefix", "{:x?}", v.prefix().raw());
        let got = view_entries(&v, cap(model.len()));
        if let Some(x) = retag(compare_entries("AsView::view", &got, &model.entries()), "C11", "whole map".into()) {
            out.push(x);
        }
        check_sides(&mut out, &mut n, &v, (0, 0), model, cx, 0);
        let vm = mc.view_mut();
        check_sides_mut(&mut out, &mut n, vm, (0, 0), model, cx, 0);
    }
    for &q in &cx.uni.queries {
        let want = model.under(q);
        let want_val = model.obs_of(q);
        for &rep in reps::<P>() {
            let qk = with_rep(q, rep, cx.uni.width);
            n += 2;
            match map.view_at(mkp(qk)) {
                None => {
                    expect!(out, want.is_empty(), "C11", "AsView::view_at", "view-missing", "view_at({:x?}) is None, model has {:x?} under it", qk, want);
                }
                Some(v) => {
                    if cx.canonical && q.1 > 0 {
                        expect!(out, !want.is_empty(), "C11", "AsView::view_at", "empty-view-exists", "view_at({:x?}) exists but holds no entry (canonical history)", qk);
                    }
                    let vp = v.prefix().raw();
                    expect!(out, norm(vp) == q, "C11", "TrieView::prefix", "prefix-is-query", "view_at({:x?}).prefix() = {:x?}", qk, vp);
                    let val = v.value().copied();
                    expect!(out, val == want_val.map(|o| o.2), "C11", "TrieView::value", "value", "view_at({:x?}).value() = {:?}, model {:?}", qk, val, want_val);
                    let pv = v.prefix_value().map(|(p, v)| obs(p, v));
                    if pv != want_val {
                        let prop = if pv.map(|o| (norm((o.0, o.1)), o.2)) == want_val.map(|o| (norm((o.0, o.1)), o.2)) { "C18" } else { "C11" };
                        out.push(Viol::new(prop, "TrieView::prefix_value", "value", format!("view_at({:x?}).prefix_value() = {:x?}, model {:x?}", qk, pv, want_val)));
                    }
                    if let Some(o) = want_val {
                        // a view on a stored entry reports the stored representation
                        expect!(out, vp == (o.0, o.1), "C18", "TrieView::prefix", "stored-representation", "view_at({:x?}).prefix() = {:x?}, stored {:x?}", qk, vp, (o.0, o.1));
                    }
                    let lim = cap(want.len());
                    let got = view_entries(&v, lim);
                    if let Some(x) = retag(compare_entries("TrieView::iter", &got, &want), "C11", format!("view_at({:x?})", qk)) {
                        out.push(x);
                    }
                    let gk: Vec<Obs> = v.keys().take(lim).map(|p| obs(p, &0)).collect();
                    let wk: Vec<Obs> = want.iter().map(|o| (o.0, o.1, 0)).collect();
                    if let Some(x) = retag(compare_entries("TrieView::keys", &gk, &wk), "C11", format!("view_at({:x?})", qk)) {
                        out.push(x);
                    }
                    let gv: Vec<u32> = v.values().take(lim).copied().collect();
                    let wv: Vec<u32> = want.iter().map(|o| o.2).collect();
                    expect!(out, gv == wv, "C11", "TrieView::values", "contents", "view_at({:x?}).values() = {:?}, model {:?}", qk, gv, wv);
                    let gi: Vec<Obs> = v.clone().into_iter().take(lim).map(|(p, v)| obs(p, v)).collect();
                    if let Some(x) = retag(compare_entries("TrieView::into_iter", &gi, &want), "C11", format!("view_at({:x?})", qk)) {
                        out.push(x);
                    }
                    check_sides(&mut out, &mut n, &v, q, model, cx, 0);
                }
            }
            // mutable twin
            match mc.view_mut_at(mkp(qk)) {
                None => expect!(out, want.is_empty(), "C11", "AsViewMut::view_mut_at", "view-missing", "view_mut_at({:x?}) is None, model has {:x?} under it", qk, want),
                Some(mut v) => {
                    if cx.canonical && q.1 > 0 {
                        expect!(out, !want.is_empty(), "C11", "AsViewMut::view_mut_at", "empty-view-exists", "view_mut_at({:x?}) exists but holds no entry", qk);
                    }
                    let vp = v.prefix().raw();
                    expect!(out, norm(vp) == q, "C11", "TrieViewMut::prefix", "prefix-is-query", "view_mut_at({:x?}).prefix() = {:x?}", qk, vp);
                    let val = v.value().copied();
                    expect!(out, val == want_val.map(|o| o.2), "C11", "TrieViewMut::value", "value", "view_mut_at({:x?}).value() = {:?}, model {:?}", qk, val, want_val);
                    let pv = v.prefix_value().map(|(p, v)| obs(p, v));
                    expect!(out, pv.map(|o| (norm((o.0, o.1)), o.2)) == want_val.map(|o| (norm((o.0, o.1)), o.2)), "C11", "TrieViewMut::prefix_value", "value", "{:x?} vs {:x?}", pv, want_val);
                    let vm = v.value_mut().map(|x| *x);
                    expect!(out, vm == want_val.map(|o| o.2), "C11", "TrieViewMut::value_mut", "value", "{:?} vs {:?}", vm, want_val);
                    // read-only view of the mutable view: same position, same value, same sides
                    let got: Vec<Obs> = (&v).view().iter().take(cap(want.len())).map(|(p, v)| obs(p, v)).collect();
                    if let Some(x) = retag(compare_entries("&TrieViewMut::view().iter", &got, &want), "C11", format!("view_mut_at({:x?})", qk)) {
                        out.push(x);
                    }
                    {
                        let ro = (&v).view();
                        expect!(out, norm(ro.prefix().raw()) == q, "C11", "&TrieViewMut::view().prefix", "prefix-is-query", "view_mut_at({:x?}).view().prefix() = {:x?}", qk, ro.prefix().raw());
                        expect!(out, ro.value().copied() == want_val.map(|o| o.2), "C11", "&TrieViewMut::view().value", "value", "view_mut_at({:x?}).view().value() = {:?}, model {:?}", qk, ro.value(), want_val);
                        check_sides(&mut out, &mut n, &ro, q, model, cx, 0);
                    }
                    let got: Vec<Obs> = v.iter_mut().take(cap(want.len())).map(|(p, v)| obs(p, v)).collect();
                    if let Some(x) = retag(compare_entries("TrieViewMut::iter_mut", &got, &want), "C11", format!("view_mut_at({:x?})", qk)) {
                        out.push(x);
                    }
                    check_sides_mut(&mut out, &mut n, v, q, model, cx, 0);
                }
            }
        }
    }
    (out, n)
}

/// C12: find / find_exact / find_lpm / view_at from every view root and for every query
pub fn find<P: PType>(st: &MapSt<P>, cx: &Cx) -> (Vec<Viol>, u64) {
    let mut out = vec![];
    let mut n = 0u64;
    let map = &st.map;
    let model = &st.model;
    let mut mc = map.clone();
    let root_reps: &[u8] = if cx.deep { reps::<P>() } else { &[0] };
    for &vq in &cx.uni.queries {
        for &vrep in root_reps {
            let vqk = with_rep(vq, vrep, cx.uni.width);
            let Some(v) = map.view_at(mkp(vqk)) else { continue };
            let ev = model.restrict(vq);
            let v_raw = v.prefix().raw();
            let v_entries = ev.entries();
            for &q in &cx.uni.queries {
                for &rep in reps::<P>() {
                    let qk = with_rep(q, rep, cx.uni.width);
                    let ctx = || format!("view at {:x?}, query {:x?}", vqk, qk);
                    // ---- find
                    let want: Vec<Obs> = ev.under(q);
                    let lim = cap(want.len());
                    let r = v.find(mkp(qk));
                    match &r {
                        None => expect!(out, want.is_empty(), "C12", "TrieView::find", "view-missing", "{}: find is None, entries {:x?}", ctx(), want),
                        Some(r) => {
                            let got = view_entries(r, lim);
                            if let Some(x) = retag(compare_entries("TrieView::find", &got, &want), "C12", ctx()) {
                                out.push(x);
                            }
                            // the view's own entry: value() is the value stored exactly at its prefix
                            let rp = norm(r.prefix().raw());
                            if covers(vq, rp) {
                                let wv = model.get(rp).map(|e| e.val);
                                expect!(out, r.value().copied() == wv, "C11", "TrieView::value (after find)", "value", "{}: found view at {:x?}: value() = {:?}, stored {:?}", ctx(), rp, r.value(), wv);
                            }
                        }
                    }
                    // ---- view_at on a view equals find
                    let r2 = v.clone().view_at(mkp(qk));
                    let same = match (&r, &r2) {
                        (None, None) => true,
                        (Some(a), Some(b)) => norm(a.prefix().raw()) == norm(b.prefix().raw()) && view_entries(a, lim) == view_entries(b, lim),
                        _ => false,
                    };
                    expect!(out, same, "C12", "AsView::view_at (on a view)", "differs-from-find", "{}", ctx());
                    // ---- find_exact
                    let want_e = if covers(vq, q) { model.obs_of(q) } else { None };
                    match (v.find_exact(&mkp(qk)), want_e) {
                        (None, None) => {}
                        (Some(r), Some(o)) => {
                            let rp = r.prefix().raw();
                            expect!(out, norm(rp) == q, "C12", "TrieView::find_exact", "view-at-wrong-position", "{}: positioned at {:x?}", ctx(), rp);
                            expect!(out, rp == (o.0, o.1) || norm(rp) != q, "C18", "TrieView::find_exact", "stored-representation", "{}: prefix {:x?}, stored {:x?}", ctx(), rp, (o.0, o.1));
                            expect!(out, r.value().copied() == Some(o.2), "C12", "TrieView::find_exact", "value", "{}: value {:?}, model {}", ctx(), r.value(), o.2);
                            let got = view_entries(&r, lim);
                            if let Some(x) = retag(compare_entries("TrieView::find_exact", &got, &want), "C12", ctx()) {
                                out.push(x);
                            }
                        }
                        (None, Some(o)) => out.push(Viol::new("C12", "TrieView::find_exact", "view-missing", format!("{}: None, but {:x?} is stored in the view", ctx(), o))),
                        (Some(r), None) => out.push(Viol::new("C12", "TrieView::find_exact", "view-unexpected", format!("{}: found a view at {:x?} but the query is not stored in the view", ctx(), r.prefix().raw()))),
                    }
                    // ---- find_lpm
                    let want_l = ev.lpm(q);
                    match (v.find_lpm(&mkp(qk)), want_l) {
                        (None, None) => {}
                        (Some(r), Some(o)) => {
                            let rp = r.prefix().raw();
                            expect!(out, norm(rp) == norm((o.0, o.1)), "C12", "TrieView::find_lpm", "view-at-wrong-position", "{}: positioned at {:x?}, lpm in the view is {:x?}", ctx(), rp, o);
                            expect!(out, r.value().copied() == Some(o.2) || norm(rp) != norm((o.0, o.1)), "C12", "TrieView::find_lpm", "value", "{}: value {:?}, model {}", ctx(), r.value(), o.2);
                        }
                        (None, Some(o)) => out.push(Viol::new("C12", "TrieView::find_lpm", "view-missing", format!("{}: None, but {:x?} covers the query", ctx(), o))),
                        (Some(r), None) => out.push(Viol::new("C12", "TrieView::find_lpm", "view-unexpected", format!("{}: positioned at {:x?} but no entry of the view covers the query", ctx(), r.prefix().raw()))),
                    }
                    n += 4;
                    // ---- mutable twins (each call consumes the view: rebuild it)
                    let orig_ok = |out: &mut Vec<Viol>, site: &str, back: TrieViewMut<P, u32>| {
                        let bp = back.prefix().raw();
                        expect!(out, bp == v_raw, "C12", site, "failure-returns-other-view", "{}: the view handed back is at {:x?}, original at {:x?}", ctx(), bp, v_raw);
                        let got: Vec<Obs> = back.into_iter().take(cap(v_entries.len())).map(|(p, v)| obs(p, v)).collect();
                        expect!(out, got == v_entries, "C12", site, "failure-returns-other-view", "{}: the view handed back holds {:x?}, original {:x?}", ctx(), got, v_entries);
                    };
                    if let Some(vm) = mc.view_mut_at(mkp(vqk)) {
                        match vm.find(mkp(qk)) {
                            Ok(mut r) => {
                                let rp = norm(r.prefix().raw());
                                if covers(vq, rp) {
                                    let wv = model.obs_of(rp);
                                    expect!(out, r.value().copied() == wv.map(|o| o.2), "C11", "TrieViewMut::value (after find)", "value", "{}: found view at {:x?}: value() = {:?}, stored {:x?}", ctx(), rp, r.value(), wv);
                                    let vm_ = r.value_mut().map(|x| *x);
                                    expect!(out, vm_ == wv.map(|o| o.2), "C13", "TrieViewMut::value_mut (after find)", "value", "{}: found view at {:x?}: value_mut() = {:?}, stored {:x?}", ctx(), rp, vm_, wv);
                                    let pvm = r.prefix_value_mut().map(|(p, v)| obs(p, v));
                                    expect!(out, pvm.map(|o| (norm((o.0, o.1)), o.2)) == wv.map(|o| (norm((o.0, o.1)), o.2)), "C13", "TrieViewMut::prefix_value_mut (after find)", "value", "{}: found view at {:x?}: prefix_value_mut() = {:x?}, stored {:x?}", ctx(), rp, pvm, wv);
                                }
                                let got: Vec<Obs> = r.into_iter().take(lim).map(|(p, v)| obs(p, v)).collect();
                                if let Some(x) = retag(compare_entries("TrieViewMut::find", &got, &want), "C12", ctx()) {
                                    out.push(x);
                                }
                                // the found view is a view like any other: sides, has_left/has_right, split
                                if covers(vq, rp) && cx.deep_find_sides {
                                    if let Some(Ok(r2)) = mc.view_mut_at(mkp(vqk)).map(|vm| vm.find(mkp(qk))) {
                                        let mut vs = vec![];
                                        check_sides_mut(&mut vs, &mut n, r2, rp, model, cx, 0);
                                        for mut v in vs {
                                            v.detail = format!("{} (view obtained by find): {}", ctx(), v.detail);
                                            out.push(v);
                                        }
                                    }
                                }
                            }
                            Err(back) => {
                                expect!(out, want.is_empty(), "C12", "TrieViewMut::find", "view-missing", "{}: Err, entries {:x?}", ctx(), want);
                                orig_ok(&mut out, "TrieViewMut::find", back);
                            }
                        }
                    }
                    if let Some(vm) = mc.view_mut_at(mkp(vqk)) {
                        let r2 = vm.view_mut_at(mkp(qk));
                        match r2 {
                            Some(r) => {
                                let got: Vec<Obs> = r.into_iter().take(lim).map(|(p, v)| obs(p, v)).collect();
                                if let Some(x) = retag(compare_entries("AsViewMut::view_mut_at (on a view)", &got, &want), "C12", ctx()) {
                                    out.push(x);
                                }
                            }
                            None => expect!(out, want.is_empty(), "C12", "AsViewMut::view_mut_at (on a view)", "view-missing", "{}: None, entries {:x?}", ctx(), want),
                        }
                    }
                    if let Some(vm) = mc.view_mut_at(mkp(vqk)) {
                        match (vm.find_exact(&mkp(qk)), want_e) {
                            (Ok(r), Some(o)) => {
                                let rp = r.prefix().raw();
                                expect!(out, norm(rp) == q && r.value().copied() == Some(o.2), "C12", "TrieViewMut::find_exact", "view-at-wrong-position", "{}: positioned at {:x?} value {:?}", ctx(), rp, r.value());
                            }
                            (Err(back), None) => orig_ok(&mut out, "TrieViewMut::find_exact", back),
                            (Ok(r), None) => out.push(Viol::new("C12", "TrieViewMut::find_exact", "view-unexpected", format!("{}: found {:x?}", ctx(), r.prefix().raw()))),
                            (Err(_), Some(o)) => out.push(Viol::new("C12", "TrieViewMut::find_exact", "view-missing", format!("{}: Err, but {:x?} is stored in the view", ctx(), o))),
                        }
                    }
                    if let Some(vm) = mc.view_mut_at(mkp(vqk)) {
                        match (vm.find_lpm(&mkp(qk)), want_l) {
                            (Ok(r), Some(o)) => {
                                let rp = r.prefix().raw();
                                expect!(out, norm(rp) == norm((o.0, o.1)) && r.value().copied() == Some(o.2), "C12", "TrieViewMut::find_lpm", "view-at-wrong-position", "{}: positioned at {:x?} value {:?}, lpm in the view {:x?}", ctx(), rp, r.value(), o);
                            }
                            (Err(back), None) => orig_ok(&mut out, "TrieViewMut::find_lpm", back),
                            (Ok(r), None) => out.push(Viol::new("C12", "TrieViewMut::find_lpm", "view-unexpected", format!("{}: positioned at {:x?} but nothing in the view covers the query", ctx(), r.prefix().raw()))),
                            (Err(_), Some(o)) => out.push(Viol::new("C12", "TrieViewMut::find_lpm", "view-missing", format!("{}: Err, but {:x?} covers the query", ctx(), o))),
                        }
                    }
                    n += 4;
                }
            }
        }
    }
    (out, n)
}

/// pre-order walk through the public view API
fn view_walk<P: PType>(out: &mut Vec<Viol>, v: &TrieView<P, u32>, parent: Option<(GK, bool)>, depth: usize, width: u8, acc: &mut Vec<(GK, u128, bool, bool, bool)>) {
    let raw = v.prefix().raw();
    let key = norm(raw);
    if depth > width as usize + 1 || acc.len() > 4096 {
        out.push(Viol::new("C15", "view walk", "path-too-long", format!("depth {depth} at {:x?}", key)));
        return;
    }
    match parent {
        None => expect!(out, key.1 == 0, "C15", "view walk", "root-not-zero-length", "root view prefix {:x?}", raw),
        Some((pk, right)) => {
            expect!(out, key.1 > pk.1, "C15", "view walk", "child-not-longer", "child {:x?} of {:x?}", key, pk);
            expect!(out, covers(pk, key), "C15", "view walk", "child-not-covered", "child {:x?} of {:x?}", key, pk);
            expect!(out, !(key.1 > pk.1) || bit(key, pk.1) == right, "C15", "view walk", "child-on-wrong-side", "child {:x?} of {:x?} on side right={right}", key, pk);
            if !(key.1 > pk.1) {
                return;
            }
        }
    }
    let l = v.left();
    let r = v.right();
    acc.push((key, raw.0, v.value().is_some(), l.is_some(), r.is_some()));
    if let Some(l) = l {
        view_walk(out, &l, Some((key, false)), depth + 1, width, acc);
    }
    if let Some(r) = r {
        view_walk(out, &r, Some((key, true)), depth + 1, width, acc);
    }
}

fn walk_from_views(acc: &[(GK, u128, bool, bool, bool)]) -> Walk {
    Walk {
        nodes: acc
            .iter()
            .enumerate()
            .map(|(i, a)| WNode {
                slot: i,
                key: a.0,
                repr: a.1,
                has_value: a.2,
                left: a.3.then_some(1),
                right: a.4.then_some(1),
                depth: if i == 0 { 0 } else { 1 },
            })
            .collect(),
        free_len: 0,
        arena_len: acc.len(),
        valued: 0,
        free: vec![],
        count: 0,
    }
}

/// C15: well-formedness observed through views (and tied to the hook dump); canonical shape
pub fn wf<P: PType>(st: &MapSt<P>, cx: &Cx) -> (Vec<Viol>, u64) {
    let mut out = vec![];
    let map = &st.map;
    let mut acc = vec![];
    view_walk(&mut out, &map.view(), None, 0, cx.uni.width, &mut acc);
    let n = acc.len() as u64;
    // the walk through the view API equals the walk through the hook dump
    let hook: Vec<(GK, u128, bool, bool, bool)> = st.walk().nodes.iter().map(|n| (n.key, n.repr, n.has_value, n.left.is_some(), n.right.is_some())).collect();
    expect!(out, acc == hook, "C15", "view walk", "view-walk-differs-from-arena", "views: {:x?}\narena: {:x?}", acc, hook);
    // the number of valued nodes is the number of entries
    expect!(out, acc.iter().filter(|a| a.2).count() == st.model.len(), "C15", "view walk", "valued-nodes-vs-entries", "{} valued nodes, {} entries", acc.iter().filter(|a| a.2).count(), st.model.len());
    if cx.canonical {
        let vw = walk_from_views(&acc);
        for a in acc.iter().skip(1) {
            expect!(out, a.2 || (a.3 && a.4), "C15", "canonical shape", "valueless-node-with-less-than-two-children", "node {:x?} has no value, left={} right={}", a.0, a.3, a.4);
        }
        // identical to a map freshly built from the surviving keys, in two insertion orders
        let entries = st.model.entries();
        for rev in [false, true] {
            let mut fresh: PrefixMap<P, u32> = PrefixMap::new();
            let mut es = entries.clone();
            if rev {
                es.reverse();
            }
            for o in &es {
                fresh.insert(P::mk(o.0, o.1), o.2);
            }
            let (fw, _, _) = walk(&fresh.verif_dump(), cx.uni.width);
            expect!(out, shape_key(&fw, cx.uni) == shape_key(&vw, cx.uni), "C15", "canonical shape", "differs-from-fresh-build", "observable shape differs from a map freshly built from {:x?} (reverse order: {rev})", entries);
        }
    }
    (out, n + 1)
}

/// recursively split a mutable view `d` levels deep, returning the disjoint views
fn split_views<'a, P: PType>(v: TrieViewMut<'a, P, u32>, d: usize, acc: &mut Vec<TrieViewMut<'a, P, u32>>) {
    if d == 0 || !(v.has_left() || v.has_right()) {
        acc.push(v);
        return;
    }
    let (l, r) = v.split();
    if let Some(l) = l {
        split_views(l, d - 1, acc);
    }
    if let Some(r) = r {
        split_views(r, d - 1, acc);
    }
}

/// C13 / C14 clause 1: all references handed out by disjoint mutable views, held at once
pub fn split_hold<P: PType>(st: &MapSt<P>, cx: &Cx) -> (Vec<Viol>, u64) {
    let mut out = vec![];
    let mut n = 0u64;
    for d in 0..=(cx.uni.depth as usize + 1) {
        let mut mc = st.map.clone();
        let mut model = st.model.clone();
        {
            let mut views = vec![];
            split_views(mc.view_mut(), d, &mut views);
            let roots: Vec<GK> = views.iter().map(|v| norm(v.prefix().raw())).collect();
            // pairwise disjoint
            for i in 0..roots.len() {
                for j in 0..i {
                    expect!(out, !covers(roots[i], roots[j]) && !covers(roots[j], roots[i]), "C14", "TrieViewMut::split", "overlapping-views", "views at {:x?} and {:x?} coexist", roots[i], roots[j]);
                }
            }
            let mut held: Vec<(GK, &mut u32)> = vec![];
            let lim = cap(model.len());
            for (i, v) in views.into_iter().enumerate() {
                let want = model.under(roots[i]);
                let items: Vec<(GK, &mut u32)> = v.into_iter().take(lim).map(|(p, v)| (p.raw(), v)).collect();
                let got: Vec<Obs> = items.iter().map(|(p, v)| (p.0, p.1, **v)).collect();
                if let Some(x) = retag(compare_entries("TrieViewMut::into_iter (after split)", &got, &want), "C13", format!("split depth {d}, view at {:x?}", roots[i])) {
                    out.push(x);
                }
                held.extend(items);
            }
            let mut addrs: Vec<usize> = held.iter().map(|(_, v)| &**v as *const u32 as usize).collect();
            addrs.sort();
            addrs.dedup();
            expect!(out, addrs.len() == held.len(), "C14", "TrieViewMut::split + into_iter", "aliasing-mutable-references", "{} references, {} distinct addresses", held.len(), addrs.len());
            for (i, (p, v)) in held.iter_mut().enumerate() {
                **v = 77_000 + i as u32;
                if model.get(*p).is_some() {
                    model.set_val(*p, 77_000 + i as u32);
                }
            }
            n += held.len() as u64 + 1;
        }
        if let Some(x) = retag(compare_entries("PrefixMap::iter (after writes through split views)", &crate::ops::collect_iter(&mc), &model.entries()), "C13", format!("split depth {d}")) {
            out.push(x);
        }
    }
    (out, n)
}

/// C16: churn cycles return to the same arena size; a canonical map emptied by `remove` holds no node
pub fn churn<P: PType>(st: &MapSt<P>, cx: &Cx) -> (Vec<Viol>, u64) {
    let mut out = vec![];
    let mut n = 0u64;
    let keys = &cx.uni.keys;
    let arena = |m: &PrefixMap<P, u32>| m.verif_dump().arena_len;
    // single-key and two-key cycles that return to the same entry set
    for (i, &k1) in keys.iter().enumerate() {
        for (j, &k2) in keys.iter().enumerate() {
            if j < i {
                continue;
            }
            let mut m = st.map.clone();
            let had1 = st.model.get(k1).is_some();
            let had2 = st.model.get(k2).is_some();
            let mut after2 = 0;
            for round in 0..12 {
                // toggle k1, toggle k2, toggle k1 back, toggle k2 back
                for (k, had) in [(k1, had1), (k2, had2), (k1, !had1), (k2, !had2)] {
                    if i == j && k == k2 && (had == had2) != (k == k1 && had == had1) {
                        // same key: only two toggles per round are meaningful; fall through harmlessly
                    }
                    if m.contains_key(&mkp::<P>(k)) {
                        m.remove(&mkp::<P>(k));
                    } else {
                        m.insert(mkp::<P>(k), 1);
                    }
                    let _ = had;
                }
                if round == 1 {
                    after2 = arena(&m);
                }
            }
            n += 48;
            let end = arena(&m);
            expect!(out, end == after2, "C16", "insert/remove cycle", "arena-grows-under-churn", "toggling {:x?} and {:x?}: arena has {} slots after 2 rounds and {} after 12", k1, k2, after2, end);
            let d = m.verif_dump();
            let (w, _, _) = walk(&d, cx.uni.width);
            expect!(out, w.nodes.len() + d.free.len() == d.arena_len, "C16", "insert/remove cycle", "slot-leaked", "{} reachable + {} free != {} slots", w.nodes.len(), d.free.len(), d.arena_len);
        }
    }
    // remove_children / retain cycles
    for &k in keys.iter() {
        let mut m = st.map.clone();
        let entries: Vec<(P, u32)> = m.iter().map(|(p, v)| (p.clone(), *v)).collect();
        let mut after2 = 0;
        let mut broken = false;
        for round in 0..8 {
            {
                // never run remove_children / retain on a structure that is already broken
                let (_, vs, fatal) = walk(&m.verif_dump(), cx.uni.width);
                if fatal || !vs.is_empty() {
                    for mut v in vs {
                        v.detail = format!("during a remove_children/retain cycle with selector {:x?}: {}", k, v.detail);
                        out.push(v);
                    }
                    broken = true;
                    break;
                }
            }
            m.remove_children(&mkp::<P>(k));
            for (p, v) in &entries {
                m.insert(p.clone(), *v);
            }
            // never run the recursive retain on a structure that is already broken
            let (_, vs, fatal) = walk(&m.verif_dump(), cx.uni.width);
            if fatal || !vs.is_empty() {
                for mut v in vs {
                    v.detail = format!("during a remove_children/insert cycle with selector {:x?}: {}", k, v.detail);
                    out.push(v);
                }
                broken = true;
                break;
            }
            m.retain(|p, _| !crate::model::covers(k, p.raw()));
            for (p, v) in &entries {
                m.insert(p.clone(), *v);
            }
            if round == 1 {
                after2 = arena(&m);
            }
        }
        n += 8;
        if broken {
            continue;
        }
        let end = arena(&m);
        expect!(out, end == after2, "C16", "remove_children/retain cycle", "arena-grows-under-churn", "selector {:x?}: arena has {} slots after 2 rounds and {} after 8", k, after2, end);
    }
    // a canonical map emptied by remove needs no more nodes than a new one
    if crate::arena::is_canonical(st.walk()) {
        for rev in [false, true] {
            let mut m = st.map.clone();
            let mut ks: Vec<GK> = st.model.keys();
            if rev {
                ks.reverse();
            }
            for k in ks {
                m.remove(&mkp::<P>(k));
            }
            let d = m.verif_dump();
            let (w, _, _) = walk(&d, cx.uni.width);
            n += 1;
            expect!(out, w.nodes.len() == 1 && d.free.len() + 1 == d.arena_len, "C16", "remove (until empty)", "emptied-map-keeps-nodes", "after removing every entry: {} reachable nodes, {} free of {} slots", w.nodes.len(), d.free.len(), d.arena_len);
        }
    }
    (out, n)
}

/// C19: a clone is fully independent of the original (every operation of the alphabet applied to
/// the clone leaves the original's arena bit-identical, and vice versa)
pub fn clone_indep<P: PType>(st: &MapSt<P>, cx: &Cx) -> (Vec<Viol>, u64) {
    use crate::sut::Sut;
    let mut out = vec![];
    let mut n = 0u64;
    let ops = <PrefixMap<P, u32> as Sut>::enumerate_ops(cx.uni, &st.model, crate::ops::Alphabet::Full, 0, false);
    let same = |a: &prefix_trie::verif::ArenaDump, b: &prefix_trie::verif::ArenaDump| a.arena_len == b.arena_len && a.free == b.free && a.count == b.count && a.slots == b.slots;
    // (the dump of `orig` itself is the reference: a clone may lay out its arena differently)
    let orig = st.map.clone();
    let before = orig.verif_dump();
    for op in ops {
        let mut c = orig.clone();
        let mut model = st.model.clone();
        // a clone is a fully usable map: the operation must behave on it as on the original
        match crate::viol::guarded(|| {
            let vs = crate::ops::apply(&mut c, &mut model, st.walk(), op, 9000, cx);
            let bad = compare_entries("PrefixMap::iter", &crate::ops::collect_iter(&c), &model.entries()).is_some() || c.len() != model.len();
            (vs, bad)
        }) {
            Err(msg) => {
                out.push(Viol::new("C19", "Clone::clone", "clone-unusable", format!("{} on a clone panicked: {msg}", op.describe(cx.uni))));
                break;
            }
            Ok((vs, bad)) => {
                if bad || vs.iter().any(|v| v.prop == "C01") {
                    out.push(Viol::new("C19", "Clone::clone", "clone-behaves-differently", format!("{} on a clone does not behave as on the original", op.describe(cx.uni))));
                    break;
                }
            }
        }
        n += 1;
        let after = orig.verif_dump();
        if !same(&before, &after) {
            out.push(Viol::new("C19", "Clone::clone", "clone-shares-state", format!("{} on the clone changed the original", op.describe(cx.uni))));
            break;
        }
        // and the other direction: mutate the original's stand-in, the clone taken before stays put
        let keep = orig.clone();
        let kd = keep.verif_dump();
        let mut o2 = orig.clone();
        let mut model2 = st.model.clone();
        let _ = crate::ops::apply(&mut o2, &mut model2, st.walk(), op, 9000, cx);
        if !same(&kd, &keep.verif_dump()) {
            out.push(Viol::new("C19", "Clone::clone", "clone-shares-state", format!("{} on the original changed an earlier clone", op.describe(cx.uni))));
            break;
        }
    }
    (out, n)
}
