//! [E2] pair engine: set operations (union, intersection, difference, covering difference and
//! their `_mut` twins) on every ordered pair of reachable states and every pair of view roots,
//! against set comprehensions over the reference models (C05, C06, C07, C08, C13, C14, C18).

use std::collections::HashMap;
use std::fmt::Debug;

use prefix_trie::trieview::UnionItem;
use prefix_trie::{AsView, AsViewMut, PrefixMap, PrefixSet, TrieView, TrieViewMut};

use crate::arena::KeyOpts;
use crate::explore::{explore_collect, history_of, Config, Report, St};
use crate::model::{covers, norm, Model, Obs};
use crate::ops::{cap, mkp, top_node_under, Alphabet, Op};
use crate::ptypes::{PType, GK};
use crate::sut::Sut;
use crate::universe::{with_rep, Universe};
use crate::viol::{guarded, Viol};

pub trait Side<P: PType>: Sut<P = P> {
    type V: Copy + PartialEq + Debug + Send + Sync + 'static;
    fn val(v: &Self::V) -> u32;
    fn put(v: &mut Self::V, x: u32);
    fn view_at_(&self, p: P) -> Option<TrieView<'_, P, Self::V>>;
    fn view_mut_at_(&mut self, p: P) -> Option<TrieViewMut<'_, P, Self::V>>;
}

impl<P: PType> Side<P> for PrefixMap<P, u32> {
    type V = u32;
    fn val(v: &u32) -> u32 {
        *v
    }
    fn put(v: &mut u32, x: u32) {
        *v = x;
    }
    fn view_at_(&self, p: P) -> Option<TrieView<'_, P, u32>> {
        self.view_at(p)
    }
    fn view_mut_at_(&mut self, p: P) -> Option<TrieViewMut<'_, P, u32>> {
        self.view_mut_at(p)
    }
}

impl<P: PType> Side<P> for PrefixSet<P> {
    type V = ();
    fn val(_: &()) -> u32 {
        0
    }
    fn put(_: &mut (), _: u32) {}
    fn view_at_(&self, p: P) -> Option<TrieView<'_, P, ()>> {
        self.view_at(p)
    }
    fn view_mut_at_(&mut self, p: P) -> Option<TrieViewMut<'_, P, ()>> {
        self.view_mut_at(p)
    }
}

pub struct PState<S> {
    pub sut: S,
    pub model: Model,
    pub hist: Vec<Op>,
    /// view roots (network form): one per node plus one virtual position per edge (all with `all_roots`)
    pub roots: Vec<GK>,
}

/// all reachable states of the universe (deduplicated by shape and stored representations)
pub fn gen_states<P: PType, S: Side<P>>(uni: &Universe, rep_mode: u8, alpha: Alphabet, all_roots: bool, threads: usize, label: &str) -> (Vec<PState<S>>, Report) {
    let cfg = Config {
        alpha,
        key_opts: KeyOpts { reps: false, layout: false, no_free: true },
        rep_mode,
        retain_all_subsets: false,
        threads,
        max_states: 5_000_000,
        max_wall_s: 3000.0,
        stop_props: vec![],
        known: vec![],
        worker_base: 0,
        deep: false,
        run_label: label.to_string(),
    };
    let mut states: Vec<St<S>> = vec![];
    let rep = explore_collect::<S>(uni, &cfg, &[], Some(&mut states));
    let out = states
        .into_iter()
        .map(|st| {
            let mut roots: Vec<GK> = vec![];
            let mut edge_seen: Vec<GK> = vec![];
            for &q in &uni.queries {
                let Some(top) = top_node_under(st.walk(), q) else { continue };
                if top == q {
                    roots.push(q);
                } else if all_roots || !edge_seen.contains(&top) {
                    edge_seen.push(top);
                    roots.push(q);
                }
            }
            PState { sut: st.map, model: st.model, hist: history_of(&st.hist), roots }
        })
        .collect();
    (out, rep)
}

#[derive(Clone, Debug, PartialEq)]
pub struct UExp {
    pub key: GK,
    pub l: Option<Obs>,
    pub r: Option<Obs>,
    pub lpm_l: Option<Obs>,
    pub lpm_r: Option<Obs>,
}

fn lpm_in(es: &[Obs], k: GK) -> Option<Obs> {
    es.iter().filter(|o| covers((o.0, o.1), k)).max_by_key(|o| o.1).copied()
}

pub fn expected_union(ea: &[Obs], eb: &[Obs]) -> Vec<UExp> {
    let mut keys: Vec<GK> = ea.iter().chain(eb.iter()).map(|o| norm((o.0, o.1))).collect();
    keys.sort();
    keys.dedup();
    keys.into_iter()
        .map(|k| UExp {
            key: k,
            l: ea.iter().find(|o| norm((o.0, o.1)) == k).copied(),
            r: eb.iter().find(|o| norm((o.0, o.1)) == k).copied(),
            lpm_l: lpm_in(ea, k),
            lpm_r: lpm_in(eb, k),
        })
        .collect()
}

fn ob<P: PType>(p: &P, v: u32) -> Obs {
    let r = p.raw();
    (r.0, r.1, v)
}

/// compare a reported LPM annotation with the expected one
fn cmp_lpm(out: &mut Vec<Viol>, site: &str, what: &str, key: GK, got: Option<Obs>, want: Option<Obs>) {
    if got == want {
        return;
    }
    let n = |o: Option<Obs>| o.map(|o| (norm((o.0, o.1)), o.2));
    if n(got) == n(want) {
        out.push(Viol::new("C18", site, "stored-representation", format!("{what} of item {:x?}: {:x?}, stored {:x?}", key, got, want)));
    } else {
        out.push(Viol::new("C08", site, "lpm-annotation", format!("{what} of item {:x?}: reported {:x?}, longest covering prefix in the other view is {:x?}", key, got, want)));
    }
}

pub struct PairCounters {
    pub evaluations: u64,
    pub items: u64,
    pub nonempty_results: u64,
    pub both_items: u64,
    pub lpm_some: u64,
    pub root_kinds: [u64; 3],
}

impl Default for PairCounters {
    fn default() -> Self {
        PairCounters { evaluations: 0, items: 0, nonempty_results: 0, both_items: 0, lpm_some: 0, root_kinds: [0; 3] }
    }
}

/// the four read-only set operations on two views, against the expected union table
#[allow(clippy::too_many_arguments)]
pub fn eval_ro<P: PType, VA: 'static, VB: 'static>(
    va: &TrieView<P, VA>,
    vb: &TrieView<P, VB>,
    fa: fn(&VA) -> u32,
    fb: fn(&VB) -> u32,
    exp: &[UExp],
    qa: GK,
    qb: GK,
    lim: usize,
    cnt: &mut PairCounters,
    out: &mut Vec<Viol>,
) {
    cnt.evaluations += 8;
    // ---------------------------------------------------------------- union
    {
        let mut it = va.union(vb.clone());
        let mut items = vec![];
        while items.len() < lim {
            match it.next() {
                Some(x) => items.push(x),
                None => break,
            }
        }
        let fused = items.len() >= lim || (it.next().is_none() && it.next().is_none());
        if !fused {
            out.push(Viol::new("C05", "TrieView::union", "not-fused", "yielded an item after None".to_string()));
        }
        let got_keys: Vec<GK> = items.iter().map(|i| norm(i.prefix().raw())).collect();
        let want_keys: Vec<GK> = exp.iter().map(|e| e.key).collect();
        if got_keys != want_keys {
            let mut g = got_keys.clone();
            g.sort();
            let cond = if g == want_keys { "order" } else { "prefix-set" };
            out.push(Viol::new("C05", "TrieView::union", cond, format!("roots {:x?} | {:x?}: union yields {:x?}, expected {:x?}", qa, qb, got_keys, want_keys)));
        } else {
            cnt.items += items.len() as u64;
            if !items.is_empty() {
                cnt.nonempty_results += 1;
            }
            for (it, e) in items.iter().zip(exp.iter()) {
                let praw = it.prefix().raw();
                match (it, e.l, e.r) {
                    (UnionItem::Both { left, right, .. }, Some(l), Some(r)) => {
                        cnt.both_items += 1;
                        if fa(left) != l.2 || fb(right) != r.2 {
                            out.push(Viol::new("C05", "TrieView::union", "value", format!("item {:x?}: values ({}, {}), stored ({}, {})", e.key, fa(left), fb(right), l.2, r.2)));
                        }
                        if praw != (l.0, l.1) && praw != (r.0, r.1) {
                            out.push(Viol::new("C18", "TrieView::union", "stored-representation", format!("Both item {:x?} reports prefix {:x?}, stored {:x?} / {:x?}", e.key, praw, l, r)));
                        }
                    }
                    (UnionItem::Left { left, right, .. }, Some(l), None) => {
                        if fa(left) != l.2 {
                            out.push(Viol::new("C05", "TrieView::union", "value", format!("item {:x?}: left value {}, stored {}", e.key, fa(left), l.2)));
                        }
                        if praw != (l.0, l.1) {
                            out.push(Viol::new("C18", "TrieView::union", "stored-representation", format!("Left item {:x?} reports prefix {:x?}, stored {:x?}", e.key, praw, l)));
                        }
                        let got = right.map(|(p, v)| ob(p, fb(v)));
                        if got.is_some() {
                            cnt.lpm_some += 1;
                        }
                        cmp_lpm(out, "TrieView::union", "Left.right", e.key, got, e.lpm_r);
                    }
                    (UnionItem::Right { left, right, .. }, None, Some(r)) => {
                        if fb(right) != r.2 {
                            out.push(Viol::new("C05", "TrieView::union", "value", format!("item {:x?}: right value {}, stored {}", e.key, fb(right), r.2)));
                        }
                        if praw != (r.0, r.1) {
                            out.push(Viol::new("C18", "TrieView::union", "stored-representation", format!("Right item {:x?} reports prefix {:x?}, stored {:x?}", e.key, praw, r)));
                        }
                        let got = left.map(|(p, v)| ob(p, fa(v)));
                        if got.is_some() {
                            cnt.lpm_some += 1;
                        }
                        cmp_lpm(out, "TrieView::union", "Right.left", e.key, got, e.lpm_l);
                    }
                    _ => {
                        let tag = match it {
                            UnionItem::Both { .. } => "Both",
                            UnionItem::Left { .. } => "Left",
                            UnionItem::Right { .. } => "Right",
                        };
                        out.push(Viol::new("C05", "TrieView::union", "tag", format!("item {:x?} is tagged {tag}, stored left: {:x?}, right: {:x?}", e.key, e.l, e.r)));
                    }
                }
                // accessor methods agree with the expected answer
                let gl = it.left().map(|(p, v)| ob(p, fa(v)));
                let gr = it.right().map(|(p, v)| ob(p, fb(v)));
                let n = |o: Option<Obs>| o.map(|o| (norm((o.0, o.1)), o.2));
                if n(gl) != n(e.l.or(e.lpm_l)) {
                    out.push(Viol::new("C08", "UnionItem::left", "lpm-annotation", format!("item {:x?}: left() = {:x?}, expected {:x?}", e.key, gl, e.l.or(e.lpm_l))));
                }
                if n(gr) != n(e.r.or(e.lpm_r)) {
                    out.push(Viol::new("C08", "UnionItem::right", "lpm-annotation", format!("item {:x?}: right() = {:x?}, expected {:x?}", e.key, gr, e.r.or(e.lpm_r))));
                }
                if it.both().is_some() != (e.l.is_some() && e.r.is_some()) {
                    out.push(Viol::new("C05", "UnionItem::both", "tag", format!("item {:x?}", e.key)));
                }
            }
        }
    }
    // ---------------------------------------------------------------- intersection
    {
        let want: Vec<&UExp> = exp.iter().filter(|e| e.l.is_some() && e.r.is_some()).collect();
        let mut it = va.intersection(vb.clone());
        let mut items = vec![];
        while items.len() < lim {
            match it.next() {
                Some(x) => items.push(x),
                None => break,
            }
        }
        if !(items.len() >= lim || (it.next().is_none() && it.next().is_none())) {
            out.push(Viol::new("C06", "TrieView::intersection", "not-fused", "yielded an item after None".to_string()));
        }
        let got_keys: Vec<GK> = items.iter().map(|i| norm(i.0.raw())).collect();
        let want_keys: Vec<GK> = want.iter().map(|e| e.key).collect();
        if got_keys != want_keys {
            let mut g = got_keys.clone();
            g.sort();
            let cond = if g == want_keys { "order" } else { "prefix-set" };
            out.push(Viol::new("C06", "TrieView::intersection", cond, format!("roots {:x?} & {:x?}: intersection yields {:x?}, expected {:x?}", qa, qb, got_keys, want_keys)));
        } else {
            cnt.items += items.len() as u64;
            for ((p, l, r), e) in items.iter().zip(want.iter()) {
                let (el, er) = (e.l.unwrap(), e.r.unwrap());
                if fa(l) != el.2 || fb(r) != er.2 {
                    out.push(Viol::new("C06", "TrieView::intersection", "value", format!("item {:x?}: values ({}, {}), stored ({}, {})", e.key, fa(l), fb(r), el.2, er.2)));
                }
                let praw = p.raw();
                if praw != (el.0, el.1) && praw != (er.0, er.1) {
                    out.push(Viol::new("C18", "TrieView::intersection", "stored-representation", format!("item {:x?} reports prefix {:x?}, stored {:x?} / {:x?}", e.key, praw, el, er)));
                }
            }
        }
    }
    // ---------------------------------------------------------------- difference
    {
        let want: Vec<&UExp> = exp.iter().filter(|e| e.l.is_some() && e.r.is_none()).collect();
        let mut it = va.difference(vb.clone());
        let mut items = vec![];
        while items.len() < lim {
            match it.next() {
                Some(x) => items.push(x),
                None => break,
            }
        }
        if !(items.len() >= lim || (it.next().is_none() && it.next().is_none())) {
            out.push(Viol::new("C07", "TrieView::difference", "not-fused", "yielded an item after None".to_string()));
        }
        let got_keys: Vec<GK> = items.iter().map(|i| norm(i.prefix.raw())).collect();
        let want_keys: Vec<GK> = want.iter().map(|e| e.key).collect();
        if got_keys != want_keys {
            let mut g = got_keys.clone();
            g.sort();
            let cond = if g == want_keys { "order" } else { "prefix-set" };
            out.push(Viol::new("C07", "TrieView::difference", cond, format!("roots {:x?} \\ {:x?}: difference yields {:x?}, expected {:x?}", qa, qb, got_keys, want_keys)));
        } else {
            cnt.items += items.len() as u64;
            for (i, e) in items.iter().zip(want.iter()) {
                let el = e.l.unwrap();
                if fa(i.value) != el.2 {
                    out.push(Viol::new("C07", "TrieView::difference", "value", format!("item {:x?}: value {}, stored {}", e.key, fa(i.value), el.2)));
                }
                if i.prefix.raw() != (el.0, el.1) {
                    out.push(Viol::new("C18", "TrieView::difference", "stored-representation", format!("item {:x?} reports prefix {:x?}, stored {:x?}", e.key, i.prefix.raw(), el)));
                }
                let got = i.right.map(|(p, v)| ob(p, fb(v)));
                if got.is_some() {
                    cnt.lpm_some += 1;
                }
                cmp_lpm(out, "TrieView::difference", "DifferenceItem.right", e.key, got, e.lpm_r);
            }
        }
    }
    // ---------------------------------------------------------------- covering difference
    {
        let want: Vec<&UExp> = exp.iter().filter(|e| e.l.is_some() && e.lpm_r.is_none()).collect();
        let mut it = va.covering_difference(vb.clone());
        let mut items = vec![];
        while items.len() < lim {
            match it.next() {
                Some(x) => items.push(x),
                None => break,
            }
        }
        if !(items.len() >= lim || (it.next().is_none() && it.next().is_none())) {
            out.push(Viol::new("C07", "TrieView::covering_difference", "not-fused", "yielded an item after None".to_string()));
        }
        let got_keys: Vec<GK> = items.iter().map(|i| norm(i.0.raw())).collect();
        let want_keys: Vec<GK> = want.iter().map(|e| e.key).collect();
        if got_keys != want_keys {
            let mut g = got_keys.clone();
            g.sort();
            let cond = if g == want_keys { "order" } else { "prefix-set" };
            out.push(Viol::new("C07", "TrieView::covering_difference", cond, format!("roots {:x?} \\\\ {:x?}: covering_difference yields {:x?}, expected {:x?}", qa, qb, got_keys, want_keys)));
        } else {
            cnt.items += items.len() as u64;
            for ((p, v), e) in items.iter().zip(want.iter()) {
                let el = e.l.unwrap();
                if fa(v) != el.2 {
                    out.push(Viol::new("C07", "TrieView::covering_difference", "value", format!("item {:x?}: value {}, stored {}", e.key, fa(v), el.2)));
                }
                if p.raw() != (el.0, el.1) {
                    out.push(Viol::new("C18", "TrieView::covering_difference", "stored-representation", format!("item {:x?} reports prefix {:x?}, stored {:x?}", e.key, p.raw(), el)));
                }
            }
        }
    }
}

/// C13: a mutable traversal yields the same prefixes, in the same order, as its read-only twin
fn cmp_mut_ro(out: &mut Vec<Viol>, site: &str, qa: GK, qb: GK, mu: &[GK], ro: &[GK]) {
    if mu == ro {
        return;
    }
    let n = |v: &[GK]| -> Vec<GK> { v.iter().map(|k| norm(*k)).collect() };
    let cond = if n(mu) == n(ro) { "prefix-differs-from-read-only-traversal" } else { "yield-sequence-differs-from-read-only-traversal" };
    out.push(Viol::new("C13", site, cond, format!("roots {:x?} / {:x?}: the mutable traversal yields {:x?}, the read-only one {:x?}", qa, qb, mu, ro)));
}

/// Evaluate all eight set operations for one pair of views. `am`/`bm` are private mutable clones
/// of the two states whose current contents are `sa`/`sb` (updated by the writes performed here).
#[allow(clippy::too_many_arguments)]
pub fn eval_root_pair<P: PType, A: Side<P>, B: Side<P>>(
    am: &mut A,
    bm: &mut B,
    sa: &mut Vec<Obs>,
    sb: &mut Vec<Obs>,
    qa: GK,
    qb: GK,
    width: u8,
    tokbase: u32,
    cnt: &mut PairCounters,
) -> Vec<Viol> {
    let mut out: Vec<Viol> = vec![];
    let _ = width;
    let under = |s: &[Obs], q: GK| -> Vec<Obs> { s.iter().filter(|o| covers(q, (o.0, o.1))).copied().collect() };
    let ea = under(sa, qa);
    let eb = under(sb, qb);
    let exp = expected_union(&ea, &eb);
    let lim = cap(ea.len() + eb.len());
    let (Some(va), Some(vb)) = (am.view_at_(mkp(qa)), bm.view_at_(mkp(qb))) else {
        out.push(Viol::new("C11", "AsView::view_at", "view-missing", format!("roots {:x?} / {:x?} vanished on the clone", qa, qb)));
        return out;
    };
    eval_ro::<P, A::V, B::V>(&va, &vb, A::val, B::val, &exp, qa, qb, lim, cnt, &mut out);
    let ro_union: Vec<GK> = va.union(vb.clone()).take(lim).map(|i| i.prefix().raw()).collect();
    let ro_inter: Vec<GK> = va.intersection(vb.clone()).take(lim).map(|i| i.0.raw()).collect();
    let ro_diff: Vec<GK> = va.difference(vb.clone()).take(lim).map(|i| i.prefix.raw()).collect();
    let ro_cdiff: Vec<GK> = va.covering_difference(vb.clone()).take(lim).map(|i| i.0.raw()).collect();
    drop((va, vb));
    // ================================================================ mutable twins
    // expected read-only sequences (prefix key, left value, right value)
    let union_seq: Vec<(GK, Option<u32>, Option<u32>)> = exp.iter().map(|e| (e.key, e.l.map(|o| o.2), e.r.map(|o| o.2))).collect();
    let mut tok = tokbase;
    let addr_check = |out: &mut Vec<Viol>, site: &str, addrs: &mut Vec<usize>| {
        let n = addrs.len();
        addrs.sort();
        addrs.dedup();
        if addrs.len() != n {
            out.push(Viol::new("C14", site, "aliasing-mutable-references", format!("{} mutable references, {} distinct addresses", n, addrs.len())));
        }
    };
    let set_val = |s: &mut Vec<Obs>, k: GK, v: u32| {
        if let Some(o) = s.iter_mut().find(|o| norm((o.0, o.1)) == k) {
            o.2 = v;
        }
    };
    // ---- union_mut
    {
        let (Some(mut vam), Some(vbm)) = (am.view_mut_at_(mkp(qa)), bm.view_mut_at_(mkp(qb))) else {
            out.push(Viol::new("C11", "AsViewMut::view_mut_at", "view-missing", format!("roots {:x?} / {:x?}", qa, qb)));
            return out;
        };
        let mut held: Vec<(GK, GK, Option<&mut A::V>, Option<&mut B::V>)> = vam.union_mut(vbm).take(lim).map(|(p, l, r)| (norm(p.raw()), p.raw(), l, r)).collect();
        let got: Vec<(GK, Option<u32>, Option<u32>)> = held.iter().map(|(k, _, l, r)| (*k, l.as_deref().map(A::val), r.as_deref().map(B::val))).collect();
        cmp_mut_ro(&mut out, "TrieViewMut::union_mut", qa, qb, &held.iter().map(|x| x.1).collect::<Vec<_>>(), &ro_union);
        // all references are alive here: their addresses must be pairwise distinct whatever the sequence looks like
        {
            let mut la: Vec<usize> = held.iter().filter_map(|x| x.2.as_deref().map(|v| v as *const A::V as usize)).collect();
            let mut lb: Vec<usize> = held.iter().filter_map(|x| x.3.as_deref().map(|v| v as *const B::V as usize)).collect();
            if std::mem::size_of::<A::V>() > 0 {
                addr_check(&mut out, "TrieViewMut::union_mut", &mut la);
            }
            if std::mem::size_of::<B::V>() > 0 {
                addr_check(&mut out, "TrieViewMut::union_mut", &mut lb);
            }
        }
        if got != union_seq {
            let presence = |v: &[(GK, Option<u32>, Option<u32>)]| -> Vec<(GK, bool, bool)> { v.iter().map(|x| (x.0, x.1.is_some(), x.2.is_some())).collect() };
            let prop = if presence(&got) == presence(&union_seq) { "C13" } else { "C05" };
            out.push(Viol::new(prop, "TrieViewMut::union_mut", "yield-sequence", format!("roots {:x?} | {:x?}: union_mut yields {:x?}, union yields {:x?}", qa, qb, got, union_seq)));
        } else {
            // the mutable traversal yields the same prefixes as the read-only one, representation included

            for ((_, raw, l, r), e) in held.iter().zip(exp.iter()) {
                let ok = match (l.is_some(), r.is_some()) {
                    (true, false) => Some(*raw) == e.l.map(|o| (o.0, o.1)),
                    (false, true) => Some(*raw) == e.r.map(|o| (o.0, o.1)),
                    _ => Some(*raw) == e.l.map(|o| (o.0, o.1)) || Some(*raw) == e.r.map(|o| (o.0, o.1)),
                };
                if !ok {
                    out.push(Viol::new("C18", "TrieViewMut::union_mut", "stored-representation", format!("item {:x?} reports prefix {:x?}, stored {:x?} / {:x?}", e.key, raw, e.l, e.r)));
                }
            }
            for (k, _, l, r) in held.iter_mut() {
                if let Some(l) = l {
                    tok += 1;
                    A::put(l, tok);
                    set_val(sa, *k, if std::mem::size_of::<A::V>() > 0 { tok } else { 0 });
                }
                if let Some(r) = r {
                    tok += 1;
                    B::put(r, tok);
                    set_val(sb, *k, if std::mem::size_of::<B::V>() > 0 { tok } else { 0 });
                }
            }
        }
    }
    // refresh expectations after the writes
    let ea = under(sa, qa);
    let eb = under(sb, qb);
    let exp = expected_union(&ea, &eb);
    // ---- intersection_mut
    {
        let (Some(mut vam), Some(vbm)) = (am.view_mut_at_(mkp(qa)), bm.view_mut_at_(mkp(qb))) else { return out };
        let want: Vec<(GK, u32, u32)> = exp.iter().filter(|e| e.l.is_some() && e.r.is_some()).map(|e| (e.key, e.l.unwrap().2, e.r.unwrap().2)).collect();
        let mut raws: Vec<GK> = vec![];
        let mut held: Vec<(GK, &mut A::V, &mut B::V)> = vam
            .intersection_mut(vbm)
            .take(lim)
            .map(|(p, l, r)| {
                raws.push(p.raw());
                (norm(p.raw()), l, r)
            })
            .collect();
        cmp_mut_ro(&mut out, "TrieViewMut::intersection_mut", qa, qb, &raws, &ro_inter);
        let got: Vec<(GK, u32, u32)> = held.iter().map(|(k, l, r)| (*k, A::val(l), B::val(r))).collect();
        {
            let mut la: Vec<usize> = held.iter().map(|x| &*x.1 as *const A::V as usize).collect();
            let mut lb: Vec<usize> = held.iter().map(|x| &*x.2 as *const B::V as usize).collect();
            if std::mem::size_of::<A::V>() > 0 {
                addr_check(&mut out, "TrieViewMut::intersection_mut", &mut la);
            }
            if std::mem::size_of::<B::V>() > 0 {
                addr_check(&mut out, "TrieViewMut::intersection_mut", &mut lb);
            }
        }
        if got != want {
            let keys = |v: &[(GK, u32, u32)]| -> Vec<GK> { v.iter().map(|x| x.0).collect() };
            let prop = if keys(&got) == keys(&want) { "C13" } else { "C06" };
            out.push(Viol::new(prop, "TrieViewMut::intersection_mut", "yield-sequence", format!("roots {:x?} & {:x?}: intersection_mut yields {:x?}, expected {:x?}", qa, qb, got, want)));
        } else {
            for (k, l, r) in held.iter_mut() {
                tok += 2;
                A::put(l, tok - 1);
                B::put(r, tok);
                set_val(sa, *k, if std::mem::size_of::<A::V>() > 0 { tok - 1 } else { 0 });
                set_val(sb, *k, if std::mem::size_of::<B::V>() > 0 { tok } else { 0 });
            }
        }
    }
    let ea = under(sa, qa);
    let eb = under(sb, qb);
    let exp = expected_union(&ea, &eb);
    // ---- difference_mut
    {
        let (Some(mut vam), Some(vb)) = (am.view_mut_at_(mkp(qa)), bm.view_at_(mkp(qb))) else { return out };
        let want: Vec<(GK, u32, Option<Obs>)> = exp.iter().filter(|e| e.l.is_some() && e.r.is_none()).map(|e| (e.key, e.l.unwrap().2, e.lpm_r)).collect();
        let mut raws: Vec<GK> = vec![];
        let mut held: Vec<(GK, &mut A::V, Option<Obs>)> = vam
            .difference_mut(vb)
            .take(lim)
            .map(|i| {
                raws.push(i.prefix.raw());
                (norm(i.prefix.raw()), i.value, i.right.map(|(p, v)| ob(p, B::val(v))))
            })
            .collect();
        cmp_mut_ro(&mut out, "TrieViewMut::difference_mut", qa, qb, &raws, &ro_diff);
        let got: Vec<(GK, u32, Option<Obs>)> = held.iter().map(|(k, v, r)| (*k, A::val(v), *r)).collect();
        {
            let mut la: Vec<usize> = held.iter().map(|x| &*x.1 as *const A::V as usize).collect();
            if std::mem::size_of::<A::V>() > 0 {
                addr_check(&mut out, "TrieViewMut::difference_mut", &mut la);
            }
        }
        if got != want {
            let keys = |v: &[(GK, u32, Option<Obs>)]| -> Vec<GK> { v.iter().map(|x| x.0).collect() };
            let kv = |v: &[(GK, u32, Option<Obs>)]| -> Vec<(GK, u32)> { v.iter().map(|x| (x.0, x.1)).collect() };
            let prop = if keys(&got) != keys(&want) {
                "C07"
            } else if kv(&got) != kv(&want) {
                "C13"
            } else {
                "C08"
            };
            out.push(Viol::new(prop, "TrieViewMut::difference_mut", if prop == "C08" { "lpm-annotation" } else { "yield-sequence" }, format!("roots {:x?} \\ {:x?}: difference_mut yields {:x?}, expected {:x?}", qa, qb, got, want)));
        } else {
            for (k, v, _) in held.iter_mut() {
                tok += 1;
                A::put(v, tok);
                set_val(sa, *k, if std::mem::size_of::<A::V>() > 0 { tok } else { 0 });
            }
        }
    }
    let ea = under(sa, qa);
    let exp = expected_union(&ea, &eb);
    // ---- covering_difference_mut
    {
        let (Some(mut vam), Some(vb)) = (am.view_mut_at_(mkp(qa)), bm.view_at_(mkp(qb))) else { return out };
        let want: Vec<(GK, u32)> = exp.iter().filter(|e| e.l.is_some() && e.lpm_r.is_none()).map(|e| (e.key, e.l.unwrap().2)).collect();
        let mut raws: Vec<GK> = vec![];
        let mut held: Vec<(GK, &mut A::V)> = vam
            .covering_difference_mut(vb)
            .take(lim)
            .map(|(p, v)| {
                raws.push(p.raw());
                (norm(p.raw()), v)
            })
            .collect();
        cmp_mut_ro(&mut out, "TrieViewMut::covering_difference_mut", qa, qb, &raws, &ro_cdiff);
        let got: Vec<(GK, u32)> = held.iter().map(|(k, v)| (*k, A::val(v))).collect();
        {
            let mut la: Vec<usize> = held.iter().map(|x| &*x.1 as *const A::V as usize).collect();
            if std::mem::size_of::<A::V>() > 0 {
                addr_check(&mut out, "TrieViewMut::covering_difference_mut", &mut la);
            }
        }
        if got != want {
            let keys = |v: &[(GK, u32)]| -> Vec<GK> { v.iter().map(|x| x.0).collect() };
            let prop = if keys(&got) == keys(&want) { "C13" } else { "C07" };
            out.push(Viol::new(prop, "TrieViewMut::covering_difference_mut", "yield-sequence", format!("roots {:x?} \\\\ {:x?}: covering_difference_mut yields {:x?}, expected {:x?}", qa, qb, got, want)));
        } else {
            for (k, v) in held.iter_mut() {
                tok += 1;
                A::put(v, tok);
                set_val(sa, *k, if std::mem::size_of::<A::V>() > 0 { tok } else { 0 });
            }
        }
    }
    // ---- C13: the writes landed exactly where the model says, nothing else changed
    let ga = am.entries();
    let gb = bm.entries();
    if ga != *sa {
        out.push(Viol::new("C13", "set-operation *_mut writes", "writes-landed-elsewhere", format!("left map holds {:x?}, expected {:x?}", ga, sa)));
        *sa = ga;
    }
    if gb != *sb {
        out.push(Viol::new("C13", "set-operation *_mut writes", "writes-landed-elsewhere", format!("right map holds {:x?}, expected {:x?}", gb, sb)));
        *sb = gb;
    }
    out
}

/// C18: a membership / order / tag / annotation mismatch that disappears when both operands store
/// the same representation means that host bits are not ignored by the set operation
pub fn add_repr_dependence<P: PType, A: Side<P>, B: Side<P>>(vs: Vec<Viol>, a_hist: &[crate::ops::Op], b_hist: &[crate::ops::Op], qa: GK, qb: GK, uni: &Universe) -> Vec<Viol> {
    let mut vs = vs;
    if vs.iter().any(|v| matches!(v.prop, "C05" | "C06" | "C07" | "C08")) {
        let flip = |h: &[crate::ops::Op]| -> Vec<crate::ops::Op> { h.iter().map(|o| crate::ops::Op { rep: 0, ..*o }).collect() };
        let ko = KeyOpts { reps: false, layout: false, no_free: true };
        if let (Some(a0), Some(b0)) = (crate::registry::rebuild::<A>(uni, &flip(a_hist), ko), crate::registry::rebuild::<B>(uni, &flip(b_hist), ko)) {
            let (mut am0, mut bm0) = (a0.map.clone(), b0.map.clone());
            let (mut sa0, mut sb0) = (a0.model.entries(), b0.model.entries());
            let mut c0 = PairCounters::default();
            let same_rep = guarded(|| eval_root_pair::<P, A, B>(&mut am0, &mut bm0, &mut sa0, &mut sb0, with_rep(qa, 0, uni.width), with_rep(qb, 0, uni.width), uni.width, 1_000_000, &mut c0));
            if let Ok(vs0) = same_rep {
                let extra: Vec<Viol> = vs
                    .iter()
                    .filter(|v| matches!(v.prop, "C05" | "C06" | "C07" | "C08") && !vs0.iter().any(|w| w.prop == v.prop && w.site == v.site && w.cond == v.cond))
                    .map(|v| Viol::new("C18", v.site.clone(), "set-operation-depends-on-host-bits", format!("with representations differing only in host bits: {}; with identical representations the result is correct", v.detail)))
                    .collect();
                vs.extend(extra);
            }
        }
    }
    vs
}

#[derive(Clone, Debug)]
pub struct PairFound {
    pub viol: Viol,
    pub a: usize,
    pub b: usize,
    pub qa: GK,
    pub qb: GK,
    pub occurrences: u64,
}

pub struct PairReport {
    pub found: Vec<PairFound>,
    pub counters: PairCounters,
    pub pairs: u64,
    pub root_pairs: u64,
    pub wall_s: f64,
}

/// which root pairs to evaluate for a pair of states
#[derive(Clone, Copy, PartialEq, Eq, Debug)]
pub enum RootMode {
    /// whole map x whole map
    Whole,
    /// every root of a x every root of b
    All,
}

pub fn run_pairs<P: PType, A: Side<P>, B: Side<P>>(left: &[PState<A>], right: &[PState<B>], uni: &Universe, mode: RootMode, threads: usize, a_filter: &(dyn Fn(usize) -> bool + Sync)) -> PairReport {
    let t0 = std::time::Instant::now();
    let threads = threads.max(1);
    let parts: Vec<(HashMap<(String, String, String), PairFound>, PairCounters, u64, u64)> = std::thread::scope(|s| {
        let mut hs = vec![];
        for t in 0..threads {
            hs.push(s.spawn(move || {
                let mut found: HashMap<(String, String, String), PairFound> = HashMap::new();
                let mut cnt = PairCounters::default();
                let (mut pairs, mut rps) = (0u64, 0u64);
                let mut ai = t;
                while ai < left.len() {
                    if !a_filter(ai) {
                        ai += threads;
                        continue;
                    }
                    let a = &left[ai];
                    for (bi, b) in right.iter().enumerate() {
                        pairs += 1;
                        let mut am = a.sut.clone();
                        let mut bm = b.sut.clone();
                        let mut sa = a.model.entries();
                        let mut sb = b.model.entries();
                        let whole = [(0u128, 0u8)];
                        let (ra, rb): (&[GK], &[GK]) = match mode {
                            RootMode::Whole => (&whole, &whole),
                            RootMode::All => (&a.roots, &b.roots),
                        };
                        for &qa in ra {
                            for &qb in rb {
                                rps += 1;
                                // representation of the root query: alternate
                                let qa_r = with_rep(qa, 1, uni.width);
                                let qb_r = with_rep(qb, 0, uni.width);
                                let r = guarded(|| eval_root_pair::<P, A, B>(&mut am, &mut bm, &mut sa, &mut sb, qa_r, qb_r, uni.width, 1_000_000, &mut cnt));
                                let vs = match r {
                                    Ok(vs) => vs,
                                    Err(msg) => {
                                        // the clones may be inconsistent now: rebuild them
                                        am = a.sut.clone();
                                        bm = b.sut.clone();
                                        sa = a.model.entries();
                                        sb = b.model.entries();
                                        vec![Viol::new("C20", "set operation", "panic", msg)]
                                    }
                                };
                                let vs = add_repr_dependence::<P, A, B>(vs, &a.hist, &b.hist, qa, qb, uni);
                                for v in vs {
                                    let sig = (v.prop.to_string(), v.site.clone(), v.cond.clone());
                                    let cost = a.hist.len() + b.hist.len();
                                    match found.get_mut(&sig) {
                                        Some(f) => {
                                            f.occurrences += 1;
                                            if cost < left[f.a].hist.len() + right[f.b].hist.len() {
                                                let occ = f.occurrences;
                                                *f = PairFound { viol: v, a: ai, b: bi, qa, qb, occurrences: occ };
                                            }
                                        }
                                        None => {
                                            found.insert(sig, PairFound { viol: v, a: ai, b: bi, qa, qb, occurrences: 1 });
                                        }
                                    }
                                }
                            }
                        }
                    }
                    ai += threads;
                }
                (found, cnt, pairs, rps)
            }));
        }
        hs.into_iter().map(|h| h.join().expect("pair worker died")).collect()
    });
    let mut all: HashMap<(String, String, String), PairFound> = HashMap::new();
    let mut cnt = PairCounters::default();
    let (mut pairs, mut rps) = (0, 0);
    for (f, c, p, r) in parts {
        pairs += p;
        rps += r;
        cnt.evaluations += c.evaluations;
        cnt.items += c.items;
        cnt.nonempty_results += c.nonempty_results;
        cnt.both_items += c.both_items;
        cnt.lpm_some += c.lpm_some;
        for (sig, pf) in f {
            match all.get_mut(&sig) {
                Some(e) => {
                    let occ = e.occurrences + pf.occurrences;
                    let better = (left[pf.a].hist.len() + right[pf.b].hist.len(), pf.a, pf.b) < (left[e.a].hist.len() + right[e.b].hist.len(), e.a, e.b);
                    if better {
                        *e = pf;
                    }
                    e.occurrences = occ;
                }
                None => {
                    all.insert(sig, pf);
                }
            }
        }
    }
    let mut found: Vec<PairFound> = all.into_values().collect();
    found.sort_by(|x, y| (&x.viol, x.a, x.b).cmp(&(&y.viol, y.a, y.b)));
    PairReport { found, counters: cnt, pairs, root_pairs: rps, wall_s: t0.elapsed().as_secs_f64() }
}
