"""[E5] bounded enumeration of client programs with rustc as the oracle (C14, clause 3).

A must-reject program has to fail with a borrow / move / lifetime / auto-trait error AND its control
(the same program with the conflicting use moved or with a harmless value type) has to compile, so
that a typo can neither fake a rejection nor hide an acceptance.
"""
import hashlib
import json
import os
import re
import subprocess
from concurrent.futures import ThreadPoolExecutor

ROOT = os.path.dirname(os.path.abspath(__file__))
HARNESS = os.path.join(ROOT, "harness")
TARGET = os.path.join(ROOT, "target")

BORROW_CODES = {"E0499", "E0502", "E0505", "E0506", "E0382", "E0597", "E0596", "E0716", "E0503", "E0373", "E0521", "E0515", "E0594", "E0507"}
TRAIT_CODES = {"E0277"}
API_CODES = {"E0599", "E0308", "E0277"}

PRELUDE = """#![allow(unused)]
use prefix_trie::*;
use prefix_trie::map::Entry;
type P = (u32, u8);
fn mk() -> PrefixMap<P, i32> {
    let mut m = PrefixMap::new();
    m.insert((0, 0), 0);
    m.insert((0, 1), 1);
    m.insert((0x8000_0000, 1), 2);
    m.insert((0x4000_0000, 2), 3);
    m
}
"""


def prog(body):
    return PRELUDE + "fn main() {\n" + body + "\n}\n"


# ---- F1: one mutable acquisition A, a conflicting access B while A is alive, then a use of A
ACQ = {
    "view_mut": "let a = m.view_mut();",
    "view_mut_at": "let a = m.view_mut_at((0, 1)).unwrap();",
    "iter_mut": "let a = m.iter_mut();",
    "values_mut": "let a = m.values_mut();",
    "children_mut": "let a = m.children_mut(&(0, 1));",
    "get_mut": "let a = m.get_mut(&(0, 1)).unwrap();",
    "get_lpm_mut": "let a = m.get_lpm_mut(&(0, 1)).unwrap();",
    "entry": "let a = m.entry((0, 1));",
    "view_into_iter": "let a = m.view_mut().into_iter();",
    "view_iter_mut_items": "let mut v = m.view_mut(); let a: Vec<_> = v.iter_mut().collect();",
    "occupied_entry": "let a = match m.entry((0, 1)) { Entry::Occupied(o) => o, _ => unreachable!() };",
    "vacant_insert_ref": "let a = m.entry((7, 8)).or_insert(5);",
}
CONFLICT = {
    "view": "let b = m.view();",
    "view_mut": "let b = m.view_mut();",
    "get": "let b = m.get(&(0, 0));",
    "iter": "let b = m.iter();",
    "len": "let b = m.len();",
    "insert": "let b = m.insert((1, 1), 9);",
    "iter_mut": "let b = m.iter_mut();",
    "clear": "m.clear();",
    "remove": "let b = m.remove(&(0, 1));",
}


def family_f1():
    out = []
    for an, a in ACQ.items():
        for bn, b in CONFLICT.items():
            bad = prog(f"    let mut m = mk();\n    {a}\n    {b}\n    drop(a);")
            ctl = prog(f"    let mut m = mk();\n    {a}\n    drop(a);\n    {b}")
            out.append({"name": f"f1-{an}-vs-{bn}", "bad": bad, "control": ctl, "codes": BORROW_CODES,
                        "what": f"`{a}` kept alive across `{b}`"})
    return out


# ---- F2: views
def family_f2():
    out = []

    def add(name, bad, ctl, what, codes=BORROW_CODES):
        out.append({"name": "f2-" + name, "bad": prog(bad), "control": prog(ctl), "codes": codes, "what": what})

    for c in ["left()", "right()", "split()", "find((0, 1))", "find_exact(&(0, 1))", "find_lpm(&(0, 1))", "into_iter()", "view_mut_at((0, 1))"]:
        add(f"reuse-after-{c.split('(')[0]}",
            f"    let mut m = mk();\n    let v = m.view_mut();\n    let w = v.{c};\n    let p = *v.prefix();\n    drop(w);",
            f"    let mut m = mk();\n    let v = m.view_mut();\n    let p = *v.prefix();\n    let w = v.{c};\n    drop(w);",
            f"a TrieViewMut used after it was consumed by {c}")
    add("shared-view-across-set",
        "    let mut m = mk();\n    let mut v = m.view_mut();\n    let r = (&v).view();\n    v.set(5);\n    let n = r.iter().count();",
        "    let mut m = mk();\n    let mut v = m.view_mut();\n    let r = (&v).view();\n    let n = r.iter().count();\n    v.set(5);",
        "a read-only view of a TrieViewMut kept across set()")
    add("shared-view-across-iter-mut",
        "    let mut m = mk();\n    let mut v = m.view_mut();\n    let r = (&v).view();\n    for (_, x) in v.iter_mut() { *x += 1; }\n    let n = r.iter().count();",
        "    let mut m = mk();\n    let mut v = m.view_mut();\n    let r = (&v).view();\n    let n = r.iter().count();\n    for (_, x) in v.iter_mut() { *x += 1; }",
        "a read-only view of a TrieViewMut kept across iter_mut()")
    add("value-mut-vs-iter-mut",
        "    let mut m = mk();\n    let mut v = m.view_mut();\n    let x = v.value_mut();\n    let it = v.iter_mut();\n    drop(x);",
        "    let mut m = mk();\n    let mut v = m.view_mut();\n    let x = v.value_mut();\n    drop(x);\n    let it = v.iter_mut();",
        "value_mut() reference alive while iter_mut() is taken")
    add("value-mut-vs-remove",
        "    let mut m = mk();\n    let mut v = m.view_mut();\n    let x = v.value_mut();\n    let y = v.remove();\n    drop(x);",
        "    let mut m = mk();\n    let mut v = m.view_mut();\n    let x = v.value_mut();\n    drop(x);\n    let y = v.remove();",
        "value_mut() reference alive across remove()")
    for op in ["union_mut", "intersection_mut"]:
        add(f"same-view-both-sides-{op}",
            f"    let mut m = mk();\n    let mut v = m.view_mut();\n    let n = v.{op}(v).count();",
            f"    let mut m = mk();\n    let mut m2 = mk();\n    let mut v = m.view_mut();\n    let n = v.{op}(m2.view_mut()).count();",
            f"the same TrieViewMut on both sides of {op}")
    for op in ["difference_mut", "covering_difference_mut"]:
        add(f"same-view-both-sides-{op}",
            f"    let mut m = mk();\n    let mut v = m.view_mut();\n    let n = v.{op}(&v).count();",
            f"    let mut m = mk();\n    let m2 = mk();\n    let mut v = m.view_mut();\n    let n = v.{op}(&m2).count();",
            f"the same TrieViewMut on both sides of {op}")
    add("map-vs-own-view-difference-mut",
        "    let mut m = mk();\n    let n = m.view_mut().difference_mut(&m).count();",
        "    let mut m = mk();\n    let m2 = mk();\n    let n = m.view_mut().difference_mut(&m2).count();",
        "difference_mut of a map against a read-only view of itself")
    add("map-vs-own-view-union-mut",
        "    let mut m = mk();\n    let mut v = m.view_mut();\n    let n = v.union_mut(m.view_mut()).count();",
        "    let mut m = mk();\n    let mut m2 = mk();\n    let mut v = m.view_mut();\n    let n = v.union_mut(m2.view_mut()).count();",
        "union_mut of two whole-map mutable views of the same map")
    add("set-op-item-outlives-view",
        "    let mut a = mk();\n    let mut b = mk();\n    let item = {\n        let mut va = a.view_mut();\n        let vb = b.view_mut();\n        va.union_mut(vb).next()\n    };\n    drop(item);",
        "    let mut a = mk();\n    let mut b = mk();\n    {\n        let mut va = a.view_mut();\n        let vb = b.view_mut();\n        let item = va.union_mut(vb).next();\n        drop(item);\n    }",
        "an item of union_mut outliving the view it borrows from")
    add("iter-mut-items-across-clear",
        "    let mut m = mk();\n    let items: Vec<_> = m.iter_mut().collect();\n    m.clear();\n    drop(items);",
        "    let mut m = mk();\n    let items: Vec<_> = m.iter_mut().collect();\n    drop(items);\n    m.clear();",
        "items of iter_mut alive across clear()")
    add("view-outlives-map",
        "    let v;\n    {\n        let mut m = mk();\n        v = m.view_mut();\n    }\n    let p = *v.prefix();",
        "    {\n        let mut m = mk();\n        let v = m.view_mut();\n        let p = *v.prefix();\n    }",
        "a TrieViewMut outliving its map")
    add("readonly-view-outlives-map",
        "    let v;\n    {\n        let m = mk();\n        v = m.view();\n    }\n    let p = *v.prefix();",
        "    {\n        let m = mk();\n        let v = m.view();\n        let p = *v.prefix();\n    }",
        "a TrieView outliving its map")
    add("set-through-shared-ref",
        "    let mut m = mk();\n    let v = m.view_mut();\n    let r = &v;\n    r.set(1);",
        "    let mut m = mk();\n    let mut v = m.view_mut();\n    let r = &mut v;\n    r.set(1);",
        "set() through a shared reference to a TrieViewMut")
    add("view-mut-from-shared-map",
        "    let m = mk();\n    let r = &m;\n    let v = r.view_mut();",
        "    let mut m = mk();\n    let r = &mut m;\n    let v = r.view_mut();",
        "view_mut() from a shared reference to the map", codes=API_CODES | BORROW_CODES)
    add("trieview-coexists-with-trieviewmut",
        "    let mut m = mk();\n    let r = m.view();\n    let v = m.view_mut();\n    let n = r.iter().count();\n    drop(v);",
        "    let mut m = mk();\n    let r = m.view();\n    let n = r.iter().count();\n    let v = m.view_mut();\n    drop(v);",
        "a TrieView coexisting with a TrieViewMut of the same map")
    add("split-halves-plus-parent",
        "    let mut m = mk();\n    let v = m.view_mut();\n    let (l, r) = v.split();\n    let again = v.split();\n    drop((l, r));",
        "    let mut m = mk();\n    let v = m.view_mut();\n    let (l, r) = v.split();\n    drop((l, r));",
        "splitting a TrieViewMut twice")
    add("entry-then-map-access",
        "    let mut m = mk();\n    let e = m.entry((0, 1));\n    let n = m.len();\n    let x = e.or_insert(1);",
        "    let mut m = mk();\n    let n = m.len();\n    let e = m.entry((0, 1));\n    let x = e.or_insert(1);",
        "the map used while an Entry is alive")
    add("occupied-entry-remove-then-get",
        "    let mut m = mk();\n    if let Entry::Occupied(e) = m.entry((0, 1)) {\n        let v = e.remove();\n        let w = *e.get();\n    }",
        "    let mut m = mk();\n    if let Entry::Occupied(e) = m.entry((0, 1)) {\n        let w = *e.get();\n        let v = e.remove();\n    }",
        "an OccupiedEntry used after remove()")
    return out


# ---- F5: two accesses through the SAME mutable view, the first one still alive
VIEW_ACQ = {
    "iter_mut": "let a = v.iter_mut();",
    "values_mut": "let a = v.values_mut();",
    "value_mut": "let a = v.value_mut();",
    "prefix_value_mut": "let a = v.prefix_value_mut();",
    "iter_mut_items": "let a: Vec<_> = v.iter_mut().collect();",
    "union_mut": "let a = v.union_mut(m2.view_mut());",
    "intersection_mut": "let a = v.intersection_mut(m2.view_mut());",
    "difference_mut": "let a = v.difference_mut(&m3);",
    "covering_difference_mut": "let a = v.covering_difference_mut(&m3);",
    "shared_view": "let a = (&v).view();",
    "shared_view_iter": "let a = (&v).view().iter();",
}
VIEW_CONFLICT = {
    "iter_mut": "let b = v.iter_mut();",
    "values_mut": "let b = v.values_mut();",
    "value_mut": "let b = v.value_mut();",
    "prefix_value_mut": "let b = v.prefix_value_mut();",
    "remove": "let b = v.remove();",
    "set": "let b = v.set(7);",
    "left": "let b = v.left();",
    "split": "let b = v.split();",
    "into_iter": "let b = v.into_iter();",
    "union_mut": "let mut m4 = mk(); let b = v.union_mut(m4.view_mut());",
}


def family_f5():
    out = []
    for an, a in VIEW_ACQ.items():
        for bn, b in VIEW_CONFLICT.items():
            head = "    let mut m = mk();\n    let mut m2 = mk();\n    let m3 = mk();\n    let mut v = m.view_mut();\n"
            bad = prog(head + f"    {a}\n    {b}\n    drop(a);")
            ctl = prog(head + f"    {a}\n    drop(a);\n    {b}")
            out.append({"name": f"f5-{an}-then-{bn}", "bad": bad, "control": ctl, "codes": BORROW_CODES,
                        "what": f"`{a}` on a TrieViewMut kept alive across `{b}` on the same view"})
    return out


# ---- F3: thread crossing
def family_f3():
    out = []
    guard_map = ("    static MX: std::sync::Mutex<i32> = std::sync::Mutex::new(0);\n"
                 "    let mut m: PrefixMap<P, std::sync::MutexGuard<'static, i32>> = PrefixMap::new();\n"
                 "    m.insert((0, 1), MX.lock().unwrap());\n")
    out.append({"name": "f3-mutexguard-view-removed-on-other-thread",
                "bad": prog(guard_map + "    let mut v = m.view_mut();\n    std::thread::scope(|s| { s.spawn(move || { let g = v.remove(); drop(g); }); });"),
                "control": prog("    let mut m = mk();\n    let mut v = m.view_mut();\n    std::thread::scope(|s| { s.spawn(move || { let g = v.remove(); drop(g); }); });"),
                "codes": TRAIT_CODES, "what": "a TrieViewMut over MutexGuard values moved to another thread"})
    out.append({"name": "f3-mutexguard-iter-mut-on-other-thread",
                "bad": prog(guard_map + "    let it = m.iter_mut();\n    std::thread::scope(|s| { s.spawn(move || { for (_, g) in it { **g += 1; } }); });"),
                "control": prog("    let mut m = mk();\n    let it = m.iter_mut();\n    std::thread::scope(|s| { s.spawn(move || { for (_, g) in it { *g += 1; } }); });"),
                "codes": TRAIT_CODES, "what": "an IterMut over MutexGuard values moved to another thread"})
    out.append({"name": "f3-rc-map-to-other-thread",
                "bad": prog("    let mut m: PrefixMap<P, std::rc::Rc<i32>> = PrefixMap::new();\n    m.insert((0, 1), std::rc::Rc::new(1));\n    std::thread::spawn(move || { drop(m); });"),
                "control": prog("    let mut m = mk();\n    std::thread::spawn(move || { drop(m); });"),
                "codes": TRAIT_CODES, "what": "a map of Rc values moved to another thread"})
    out.append({"name": "f3-cell-map-shared-between-threads",
                "bad": prog("    let mut m: PrefixMap<P, std::cell::Cell<i32>> = PrefixMap::new();\n    m.insert((0, 1), std::cell::Cell::new(1));\n    std::thread::scope(|s| { s.spawn(|| { m.get(&(0, 1)).unwrap().set(2); }); s.spawn(|| { m.get(&(0, 1)).unwrap().set(3); }); });"),
                "control": prog("    let m = mk();\n    std::thread::scope(|s| { s.spawn(|| { let _ = m.get(&(0, 1)); }); s.spawn(|| { let _ = m.get(&(0, 1)); }); });"),
                "codes": TRAIT_CODES, "what": "a map of Cell values shared between threads"})
    out.append({"name": "f3-cell-view-to-other-thread",
                "bad": prog("    let mut m: PrefixMap<P, std::cell::Cell<i32>> = PrefixMap::new();\n    m.insert((0, 1), std::cell::Cell::new(1));\n    let v = m.view();\n    std::thread::scope(|s| { s.spawn(move || { v.value().map(|c| c.set(2)); }); m.get(&(0, 1)).unwrap().set(3); });"),
                "control": prog("    let m = mk();\n    let v = m.view();\n    std::thread::scope(|s| { s.spawn(move || { let _ = v.value(); }); let _ = m.get(&(0, 1)); });"),
                "codes": TRAIT_CODES, "what": "a TrieView over Cell values sent to another thread while the map is used here"})
    out.append({"name": "f3-same-view-in-two-threads",
                "bad": prog("    let mut m = mk();\n    let mut v = m.view_mut();\n    std::thread::scope(|s| { s.spawn(|| { v.set(1); }); s.spawn(|| { v.set(2); }); });"),
                "control": prog("    let mut m = mk();\n    let (l, r) = m.view_mut().split();\n    let (mut l, mut r) = (l.unwrap(), r.unwrap());\n    std::thread::scope(|s| { s.spawn(move || { l.set(1); }); s.spawn(move || { r.set(2); }); });"),
                "codes": BORROW_CODES, "what": "one TrieViewMut mutated from two threads"})
    return out


# ---- F4: auto-trait matrix
TYPES_T = {
    "PrefixMap": "PrefixMap<P, T>",
    "TrieView": "TrieView<'static, P, T>",
    "TrieViewMut": "TrieViewMut<'static, P, T>",
    "map::Iter": "map::Iter<'static, P, T>",
    "map::Keys": "map::Keys<'static, P, T>",
    "map::Values": "map::Values<'static, P, T>",
    "map::IterMut": "map::IterMut<'static, P, T>",
    "map::ValuesMut": "map::ValuesMut<'static, P, T>",
    "map::IntoIter": "map::IntoIter<P, T>",
    "map::IntoKeys": "map::IntoKeys<P, T>",
    "map::IntoValues": "map::IntoValues<P, T>",
    "map::Cover": "map::Cover<'static, 'static, P, T>",
    "map::CoverKeys": "map::CoverKeys<'static, 'static, P, T>",
    "map::CoverValues": "map::CoverValues<'static, 'static, P, T>",
    "map::Entry": "map::Entry<'static, P, T>",
    "map::VacantEntry": "map::VacantEntry<'static, P, T>",
    "map::OccupiedEntry": "map::OccupiedEntry<'static, P, T>",
    "trieview::Union": "trieview::Union<'static, P, T, T>",
    "trieview::UnionMut": "trieview::UnionMut<'static, P, T, T>",
    "trieview::Intersection": "trieview::Intersection<'static, P, T, T>",
    "trieview::IntersectionMut": "trieview::IntersectionMut<'static, P, T, T>",
    "trieview::Difference": "trieview::Difference<'static, P, T, T>",
    "trieview::DifferenceMut": "trieview::DifferenceMut<'static, P, T, T>",
    "trieview::CoveringDifference": "trieview::CoveringDifference<'static, P, T, T>",
    "trieview::CoveringDifferenceMut": "trieview::CoveringDifferenceMut<'static, P, T, T>",
}
OWNING = {"PrefixMap", "map::IntoIter", "map::IntoKeys", "map::IntoValues"}
MUTABLE = {"TrieViewMut", "map::IterMut", "map::ValuesMut", "map::Entry", "map::VacantEntry", "map::OccupiedEntry", "trieview::UnionMut",
           "trieview::IntersectionMut", "trieview::DifferenceMut", "trieview::CoveringDifferenceMut"}
# map::IntoKeys drops the values without handing them out, but still owns (and drops) them
VALUE_CLASSES = {
    "Rc": "std::rc::Rc<i32>",                               # !Send, !Sync
    "Cell": "std::cell::Cell<i32>",                         # Send, !Sync
    "MutexGuard": "std::sync::MutexGuard<'static, i32>",    # !Send, Sync
}


def must_reject(tname, trait, vclass):
    """soundness direction only"""
    owning, mutable = tname in OWNING, tname in MUTABLE
    shared = not owning and not mutable
    if vclass == "Rc":
        return True
    if vclass == "Cell":            # Send, !Sync
        if trait == "Sync":
            return True             # &X gives &T on several threads
        return shared               # sending a shared handle = sharing T
    if vclass == "MutexGuard":      # !Send, Sync
        if trait == "Send":
            return owning or mutable    # the receiver can obtain T or &mut T
        # Sync: &X only gives &T (T: Sync) except for X from which &X yields &mut T -- none here
        return False
    return False


def family_f4():
    out = []
    for tname, ty in TYPES_T.items():
        for trait in ("Send", "Sync"):
            ctl_src = f"#![allow(unused)]\nuse prefix_trie::*;\ntype P = (u32, u8);\ntype T = i32;\nfn check<X: {trait}>() {{}}\nfn main() {{ check::<{ty}>(); }}\n"
            for vclass, vt in VALUE_CLASSES.items():
                if not must_reject(tname, trait, vclass):
                    continue
                src = f"#![allow(unused)]\nuse prefix_trie::*;\ntype P = (u32, u8);\ntype T = {vt};\nfn check<X: {trait}>() {{}}\nfn main() {{ check::<{ty}>(); }}\n"
                out.append({"name": f"f4-{tname}-{trait}-{vclass}", "bad": src, "control": ctl_src, "codes": TRAIT_CODES,
                            "what": f"{tname} is {trait} although its value type is {vclass}"})
    return out


def all_programs():
    return family_f1() + family_f2() + family_f3() + family_f4() + family_f5()


# ------------------------------------------------------------------------------------------------

def locate_rlib():
    env = dict(os.environ, CARGO_NET_OFFLINE="true", CARGO_TARGET_DIR=TARGET)
    r = subprocess.run(["cargo", "build", "--release", "--offline", "--message-format=json", "--bin", "vh"], cwd=HARNESS, env=env,
                       stdout=subprocess.PIPE, stderr=subprocess.DEVNULL, text=True)
    rlib = None
    for line in r.stdout.splitlines():
        try:
            m = json.loads(line)
        except ValueError:
            continue
        if m.get("reason") == "compiler-artifact" and m["target"]["name"] in ("prefix_trie", "prefix-trie"):
            for f in m["filenames"]:
                if f.endswith(".rlib"):
                    rlib = f
    return rlib


def compile_one(src, rlib, wdir, name):
    path = os.path.join(wdir, name + ".rs")
    with open(path, "w") as f:
        f.write(src)
    r = subprocess.run(["rustc", "--edition", "2021", "--crate-type", "bin", "--emit=metadata", "-o", os.path.join(wdir, name + ".rmeta"),
                        "--extern", f"prefix_trie={rlib}", "-L", f"dependency={os.path.join(TARGET, 'release', 'deps')}", "--error-format=short", path],
                       stdout=subprocess.PIPE, stderr=subprocess.STDOUT, text=True)
    codes = set(re.findall(r"error\[(E\d+)\]", r.stdout))
    other_errors = [l for l in r.stdout.splitlines() if "error" in l and "error[" not in l and "aborting" not in l and "could not compile" not in l]
    return r.returncode == 0, codes, r.stdout[-1500:], other_errors


def run(tier, seed, wdir):
    import time
    t0 = time.time()
    pdir = os.path.join(wdir, "programs")
    os.makedirs(pdir, exist_ok=True)
    rlib = locate_rlib()
    if not rlib or not os.path.exists(rlib):
        return {"engine": "programs", "machinery_error": "cannot locate the freshly built prefix_trie rlib", "found": []}
    progs = all_programs()
    jobs = []
    for p in progs:
        jobs.append((p, "bad"))
        jobs.append((p, "control"))

    def work(job):
        p, which = job
        name = p["name"].replace("::", "_") + "-" + which
        return (p["name"], which) + compile_one(p[which], rlib, pdir, name)

    with ThreadPoolExecutor(max_workers=16) as ex:
        results = list(ex.map(work, jobs))
    res = {(n, w): (ok, codes, out, other) for n, w, ok, codes, out, other in results}
    found, skipped, rejected_ok = [], [], 0
    families = {}
    for p in progs:
        ok_bad, codes_bad, out_bad, _ = res[(p["name"], "bad")]
        ok_ctl, _, out_ctl, _ = res[(p["name"], "control")]
        fam = p["name"].split("-")[0]
        families[fam] = families.get(fam, 0) + 1
        if not ok_ctl:
            skipped.append({"program": p["name"], "reason": "control does not compile", "rustc": out_ctl[-400:]})
            continue
        if ok_bad:
            found.append({"property": "C14", "site": "rustc", "cond": "program-accepted:" + p["name"], "detail": f"{p['what']}: the program compiles but must be rejected", "at": "program",
                          "occurrences": 1, "history": [], "extra": {"program": p["name"], "source": p["bad"]}})
        elif not (codes_bad & p["codes"]):
            skipped.append({"program": p["name"], "reason": f"rejected, but with {sorted(codes_bad)} instead of one of {sorted(p['codes'])}", "rustc": out_bad[-400:]})
        else:
            rejected_ok += 1
    sample = [{"program": progs[0]["name"], "source": progs[0]["bad"]}, {"program": progs[-1]["name"], "source": progs[-1]["bad"]}]
    out = {"engine": "programs", "run": "client programs with rustc as oracle", "spec": {"engine": "programs"}, "programs": len(progs), "compilations": len(jobs),
           "evaluations": len(jobs), "distinct_outcomes": rejected_ok, "rejected_as_required": rejected_ok, "skipped": skipped, "families": families,
           "exhaustive": True, "wall_s": time.time() - t0, "samples": sample, "found": found, "rlib": rlib}
    if len(skipped) > len(progs) // 5:
        out["machinery_error"] = f"{len(skipped)} of {len(progs)} program pairs are inconclusive (first: {skipped[0]})"
    return out


def replay(path):
    rp = json.load(open(path))
    src = rp["extra"]["source"]
    rlib = locate_rlib()
    wdir = os.path.join(ROOT, ".work", "replay")
    os.makedirs(wdir, exist_ok=True)
    a = compile_one(src, rlib, wdir, "replay_a")
    b = compile_one(src, rlib, wdir, "replay_b")
    if a[0] != b[0]:
        print("MACHINERY-ERROR replay is not deterministic")
        return 2
    if a[0]:
        print(f"the program compiles:\n{src}")
        print(f"VIOLATION property={rp['property']} replay={path}")
        return 1
    print(f"not reproduced: the program is rejected with {sorted(a[1])}")
    return 0


if __name__ == "__main__":
    import sys
    r = run("quick", 0, os.path.join(ROOT, ".work", "programs_selftest"))
    print({k: v for k, v in r.items() if k not in ("samples", "found", "skipped")})
    print("FOUND", len(r["found"]))
    for f in r["found"]:
        print("  ", f["cond"])
    print("SKIPPED", len(r["skipped"]))
    for s_ in r["skipped"]:
        print("  ", s_["program"], "|", s_["reason"])
