#!/bin/sh
# usage: seedbatch.sh "<outdir> <seed> <prop> [checks...]" ...   (sandbox mode, one shared scratch worktree)
export SEED_SANDBOX=1 SEED_KEEP_WT=1
for spec in "$@"; do
  python3 /verif/tools/seedtest.py $spec 2>&1 | tail -40
done
