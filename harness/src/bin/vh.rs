use vharness::arena::KeyOpts;
use vharness::explore::{explore, Config, Report};
use vharness::ops::Alphabet;
use vharness::ptypes::PType;
use vharness::universe::{Embed, Universe};
use vharness::dispatch_ptype;

fn run<P: PType>(uname: &str, embed: Embed, cfg: &Config) -> Report {
    let uni = Universe::new(uname, embed, P::WIDTH);
    explore::<prefix_trie::PrefixMap<P, u32>>(&uni, cfg, &[("exact", vharness::obs::exact::<P>), ("lpm", vharness::obs::lpm::<P>), ("iters", vharness::obs::iters::<P>), ("cover", vharness::obs::cover::<P>), ("children", vharness::obs::children::<P>)])
}

fn main() {
    vharness::viol::install_quiet_panic_hook();
    let args: Vec<String> = std::env::args().collect();
    let ptype = args.get(1).map(|s| s.as_str()).unwrap_or("u8");
    let uname = args.get(2).map(|s| s.as_str()).unwrap_or("U2");
    let embed = if args.get(3).map(|s| s.as_str()) == Some("lo") { Embed::Lo } else { Embed::Hi };
    let alpha = match args.get(4).map(|s| s.as_str()) { Some("structural") => Alphabet::Structural, Some("canonical") => Alphabet::Canonical, _ => Alphabet::Full };
    let reps = args.get(5).map(|s| s == "reps").unwrap_or(false);
    let threads: usize = args.get(6).and_then(|s| s.parse().ok()).unwrap_or(1);
    let cfg = Config { alpha, key_opts: KeyOpts { reps, layout: false }, two_reps: reps, retain_all_subsets: true, threads, max_states: 50_000_000, max_wall_s: 3600.0, stop_props: vec![], known: vec![], worker_base: 0 };
    let r = dispatch_ptype!(ptype, run(uname, embed, &cfg));
    println!("evals={} {} states={} shapes={} canonical={} transitions={} self_loops={} layers={} pruned={} wall={:.2}s digest={:x} max_arena={}", r.observer_evals, r.run, r.states, r.shape_states, r.canonical_states, r.transitions, r.self_loops, r.layers, r.pruned, r.wall_s, r.digest, r.max_arena_len);
    for f in &r.found { println!("VIOL {} {} {} x{} :: {} :: hist={:?}", f.viol.prop, f.viol.site, f.viol.cond, f.occurrences, f.viol.detail, f.history.len()); }
    println!("{:?}", r.op_counts);
}
