#!/usr/bin/env python3
"""Run every quick check against a behaviour-preserving refactoring (false-alarm test).

usage: refactest.py <dir with patch.diff notes.md> <id>
Applies the patch in a scratch worktree, confirms build + 150 baseline tests, then runs all 20 quick
checks from a sandbox copy of /verif against that worktree. Every check must exit 0.
"""
import json, os, re, shutil, subprocess, sys, time

def sh(cmd, cwd=None, timeout=3600):
    # own session, so that a timeout kills the whole process group (cargo, check, engines)
    import signal
    p = subprocess.Popen(cmd, cwd=cwd, shell=True, stdout=subprocess.PIPE, stderr=subprocess.STDOUT, text=True, start_new_session=True)
    try:
        out, _ = p.communicate(timeout=timeout)
        return p.returncode, out
    except subprocess.TimeoutExpired:
        try:
            os.killpg(p.pid, signal.SIGKILL)
        except OSError:
            pass
        p.wait()
        return 124, "TIMEOUT"

def main():
    d, rid = sys.argv[1], sys.argv[2]
    wt, vdir = os.environ.get("REFAC_WT", "/tmp/rf_wt"), os.environ.get("REFAC_VDIR", "/tmp/rf_verif")
    if not os.path.exists(wt):
        c, o = sh(f"git -C /repo worktree add --detach {wt} HEAD"); assert c == 0, o
    sh("git checkout -- . && git clean -fdq tests", cwd=wt)
    c, o = sh(f"git apply {d}/patch.diff", cwd=wt)
    meta = {"id": rid, "applies": c == 0}
    c, o = sh("cargo build --offline --features ipnetwork,cidr,serde,verif-hooks 2>&1 | tail -3", cwd=wt, timeout=600)
    meta["builds_with_hooks"] = "Finished" in o
    c, o = sh("timeout 1500 cargo nextest run --workspace --no-fail-fast --offline 2>&1 | tail -4", cwd=wt, timeout=1600)
    m = re.search(r"(\d+) tests run: (\d+) passed", o)
    meta["baseline_150"] = bool(m) and m.group(1) == "150" and m.group(2) == "150"
    results = {}
    if meta["applies"] and meta["builds_with_hooks"] and meta["baseline_150"]:
        sh(f"mkdir -p {vdir} && rsync -a --delete --exclude target --exclude .work --exclude replays --exclude .git --exclude evidence --exclude mutants --exclude seeded /verif/ {vdir}/ && "
           f"sed -i 's#path = \"/repo\"#path = \"{wt}\"#' {vdir}/harness/Cargo.toml {vdir}/sched/Cargo.toml {vdir}/alias/Cargo.toml")
        # REFAC_CHECKS="C13 C14": re-run only these (results of the other checks are kept from the earlier run)
        only = os.environ.get("REFAC_CHECKS", "").split()
        if only:
            try:
                results = json.load(open(f"/verif/refactorings/{rid}/meta.json")).get("checks", {})
            except (OSError, ValueError):
                results = {}
        for chk in (only or [f"C{i:02d}" for i in range(1, 21)]):
            t0 = time.time()
            c, o = sh(f"./check {chk} --tier quick 2>&1 | tail -8", cwd=vdir, timeout=3000)
            lines = [l for l in o.splitlines() if l.startswith("VIOLATION") or l.startswith("MACHINERY") or l.startswith("  ")]
            ok = c == 0 and not lines
            results[chk] = {"silent": ok, "exit": c, "lines": lines[:6], "wall_s": round(time.time() - t0, 1)}
    meta["checks"] = results
    meta["alarms"] = [k for k, v in results.items() if not v["silent"]]
    dst = f"/verif/refactorings/{rid}"
    os.makedirs(dst, exist_ok=True)
    for f in ("patch.diff", "notes.md"):
        if os.path.exists(os.path.join(d, f)) and os.path.abspath(d) != os.path.abspath(dst):
            shutil.copy(os.path.join(d, f), os.path.join(dst, f))
    json.dump(meta, open(os.path.join(dst, "meta.json"), "w"), indent=1)
    sh("git checkout -- .", cwd=wt)
    print(json.dumps({k: meta[k] for k in ("id", "applies", "builds_with_hooks", "baseline_150", "alarms")}))

if __name__ == "__main__":
    main()
