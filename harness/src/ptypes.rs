//! The 14 shipped prefix types behind one constructor trait.
//!
//! A *generic key* `GK = (addr, len)` is a 128-bit left-aligned address (bit 0 of the prefix is
//! bit 127 of `addr`) together with a length. Host bits may be set in `addr`. Construction and
//! destructuring go through the native API of each type, never through `prefix_trie::Prefix`, so
//! that the reference model does not depend on the code under test.

use std::fmt::Debug;
use std::net::{Ipv4Addr, Ipv6Addr};

use prefix_trie::Prefix;

pub type GK = (u128, u8);

pub trait PType: Prefix + Clone + PartialEq + Debug + Send + Sync + 'static {
    const NAME: &'static str;
    const WIDTH: u8;
    /// whether the type can remember host bits
    const KEEPS_HOST: bool;
    /// build from a left-aligned 128-bit address (host bits allowed) and a length `<= WIDTH`.
    fn mk(addr: u128, len: u8) -> Self;
    /// left-aligned raw address as stored (including host bits) and the length.
    fn raw(&self) -> GK;
    /// serialize + deserialize a map through serde_json, for the key types that support it
    fn serde_map_roundtrip(_m: &prefix_trie::PrefixMap<Self, u32>) -> Option<Result<prefix_trie::PrefixMap<Self, u32>, String>> {
        None
    }
    fn serde_set_roundtrip(_s: &prefix_trie::PrefixSet<Self>) -> Option<Result<prefix_trie::PrefixSet<Self>, String>> {
        None
    }
}

macro_rules! serde_rt {
    () => {
        fn serde_map_roundtrip(m: &prefix_trie::PrefixMap<Self, u32>) -> Option<Result<prefix_trie::PrefixMap<Self, u32>, String>> {
            Some(serde_json::to_string(m).map_err(|e| e.to_string()).and_then(|s| serde_json::from_str(&s).map_err(|e| format!("{e} in {s}"))))
        }
        fn serde_set_roundtrip(m: &prefix_trie::PrefixSet<Self>) -> Option<Result<prefix_trie::PrefixSet<Self>, String>> {
            Some(serde_json::to_string(m).map_err(|e| e.to_string()).and_then(|s| serde_json::from_str(&s).map_err(|e| format!("{e} in {s}"))))
        }
    };
}

macro_rules! tuple_ptype {
    ($t:ty, $w:expr, $name:expr) => {
        impl PType for ($t, u8) {
            const NAME: &'static str = $name;
            const WIDTH: u8 = $w;
            const KEEPS_HOST: bool = true;
            fn mk(addr: u128, len: u8) -> Self {
                ((addr >> (128 - $w as u32)) as $t, len)
            }
            fn raw(&self) -> GK {
                ((self.0 as u128) << (128 - $w as u32), self.1)
            }
        }
    };
}
tuple_ptype!(u8, 8, "u8");
tuple_ptype!(u16, 16, "u16");
tuple_ptype!(u32, 32, "u32");
tuple_ptype!(u64, 64, "u64");
tuple_ptype!(usize, 64, "usize");

impl PType for (u128, u8) {
    const NAME: &'static str = "u128";
    const WIDTH: u8 = 128;
    const KEEPS_HOST: bool = true;
    fn mk(addr: u128, len: u8) -> Self {
        (addr, len)
    }
    fn raw(&self) -> GK {
        (self.0, self.1)
    }
}

fn v4(addr: u128) -> Ipv4Addr {
    Ipv4Addr::from((addr >> 96) as u32)
}
fn v6(addr: u128) -> Ipv6Addr {
    Ipv6Addr::from(addr)
}
fn from_v4(a: Ipv4Addr) -> u128 {
    (u32::from(a) as u128) << 96
}
fn from_v6(a: Ipv6Addr) -> u128 {
    u128::from(a)
}

impl PType for ipnet::Ipv4Net {
    const NAME: &'static str = "Ipv4Net";
    const WIDTH: u8 = 32;
    const KEEPS_HOST: bool = true;
    fn mk(addr: u128, len: u8) -> Self {
        ipnet::Ipv4Net::new(v4(addr), len).unwrap()
    }
    fn raw(&self) -> GK {
        (from_v4(self.addr()), self.prefix_len())
    }
    serde_rt!();
}
impl PType for ipnet::Ipv6Net {
    const NAME: &'static str = "Ipv6Net";
    const WIDTH: u8 = 128;
    const KEEPS_HOST: bool = true;
    fn mk(addr: u128, len: u8) -> Self {
        ipnet::Ipv6Net::new(v6(addr), len).unwrap()
    }
    fn raw(&self) -> GK {
        (from_v6(self.addr()), self.prefix_len())
    }
    serde_rt!();
}
impl PType for ipnetwork::Ipv4Network {
    const NAME: &'static str = "Ipv4Network";
    const WIDTH: u8 = 32;
    const KEEPS_HOST: bool = true;
    fn mk(addr: u128, len: u8) -> Self {
        ipnetwork::Ipv4Network::new(v4(addr), len).unwrap()
    }
    fn raw(&self) -> GK {
        (from_v4(self.ip()), self.prefix())
    }
}
impl PType for ipnetwork::Ipv6Network {
    const NAME: &'static str = "Ipv6Network";
    const WIDTH: u8 = 128;
    const KEEPS_HOST: bool = true;
    fn mk(addr: u128, len: u8) -> Self {
        ipnetwork::Ipv6Network::new(v6(addr), len).unwrap()
    }
    fn raw(&self) -> GK {
        (from_v6(self.ip()), self.prefix())
    }
}
fn m128(len: u8) -> u128 {
    if len == 0 {
        0
    } else {
        u128::MAX << (128 - len as u32)
    }
}
impl PType for cidr::Ipv4Cidr {
    const NAME: &'static str = "Ipv4Cidr";
    const WIDTH: u8 = 32;
    const KEEPS_HOST: bool = false;
    fn mk(addr: u128, len: u8) -> Self {
        // Cidr types reject host bits: mask here (independent of the crate under test).
        cidr::Ipv4Cidr::new(v4(addr & m128(len)), len).unwrap()
    }
    fn raw(&self) -> GK {
        (from_v4(self.first_address()), self.network_length())
    }
}
impl PType for cidr::Ipv6Cidr {
    const NAME: &'static str = "Ipv6Cidr";
    const WIDTH: u8 = 128;
    const KEEPS_HOST: bool = false;
    fn mk(addr: u128, len: u8) -> Self {
        cidr::Ipv6Cidr::new(v6(addr & m128(len)), len).unwrap()
    }
    fn raw(&self) -> GK {
        (from_v6(self.first_address()), self.network_length())
    }
}
impl PType for cidr::Ipv4Inet {
    const NAME: &'static str = "Ipv4Inet";
    const WIDTH: u8 = 32;
    const KEEPS_HOST: bool = true;
    fn mk(addr: u128, len: u8) -> Self {
        cidr::Ipv4Inet::new(v4(addr), len).unwrap()
    }
    fn raw(&self) -> GK {
        (from_v4(self.address()), self.network_length())
    }
}
impl PType for cidr::Ipv6Inet {
    const NAME: &'static str = "Ipv6Inet";
    const WIDTH: u8 = 128;
    const KEEPS_HOST: bool = true;
    fn mk(addr: u128, len: u8) -> Self {
        cidr::Ipv6Inet::new(v6(addr), len).unwrap()
    }
    fn raw(&self) -> GK {
        (from_v6(self.address()), self.network_length())
    }
}

pub const ALL_TYPES: [&str; 14] = [
    "u8",
    "u16",
    "u32",
    "u64",
    "u128",
    "usize",
    "Ipv4Net",
    "Ipv6Net",
    "Ipv4Network",
    "Ipv6Network",
    "Ipv4Cidr",
    "Ipv6Cidr",
    "Ipv4Inet",
    "Ipv6Inet",
];

/// Call `$f::<P>($($a),*)` with `P` chosen by name.
#[macro_export]
macro_rules! dispatch_ptype {
    ($name:expr, $f:ident ( $($a:expr),* )) => {
        match $name {
            "u8" => $f::<(u8, u8)>($($a),*),
            "u16" => $f::<(u16, u8)>($($a),*),
            "u32" => $f::<(u32, u8)>($($a),*),
            "u64" => $f::<(u64, u8)>($($a),*),
            "u128" => $f::<(u128, u8)>($($a),*),
            "usize" => $f::<(usize, u8)>($($a),*),
            "Ipv4Net" => $f::<ipnet::Ipv4Net>($($a),*),
            "Ipv6Net" => $f::<ipnet::Ipv6Net>($($a),*),
            "Ipv4Network" => $f::<ipnetwork::Ipv4Network>($($a),*),
            "Ipv6Network" => $f::<ipnetwork::Ipv6Network>($($a),*),
            "Ipv4Cidr" => $f::<cidr::Ipv4Cidr>($($a),*),
            "Ipv6Cidr" => $f::<cidr::Ipv6Cidr>($($a),*),
            "Ipv4Inet" => $f::<cidr::Ipv4Inet>($($a),*),
            "Ipv6Inet" => $f::<cidr::Ipv6Inet>($($a),*),
            other => panic!("unknown prefix type {other}"),
        }
    };
}
