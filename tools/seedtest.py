#!/usr/bin/env python3
"""Confirm a seeded defect delivered by a sub-agent and run the registered checks against it.

usage: seedtest.py <out_dir containing patch.diff demo.rs notes.md> <seed id> <property> [checks...]

1. scratch worktree of /repo (outside /repo and /verif): demo passes at HEAD; with the patch the
   crate builds, the 150 baseline tests pass, the demo fails.
2. apply the patch to /repo, run `./check <id>` for each listed check (default: the property's own),
   undo the patch (git checkout -- .).
3. write /verif/seeded/<seed id>/{patch.diff,demo.rs,notes.md,meta.json}; remove the worktree.
"""
import json, os, re, shutil, subprocess, sys, time

def sh(cmd, cwd=None, timeout=1800):
    # own session, so that a timeout kills the whole process group (cargo, check, engines)
    import signal
    p = subprocess.Popen(cmd, cwd=cwd, shell=True, stdout=subprocess.PIPE, stderr=subprocess.STDOUT, text=True, start_new_session=True)
    try:
        out, _ = p.communicate(timeout=timeout)
        return p.returncode, out
    except subprocess.TimeoutExpired:
        try:
            os.killpg(p.pid, signal.SIGKILL)
        except OSError:
            pass
        p.wait()
        return 124, "TIMEOUT"

def main():
    out_dir, sid, prop = sys.argv[1], sys.argv[2], sys.argv[3]
    checks = sys.argv[4:] or [prop]
    wt = os.environ.get("SEED_WT", "/tmp/sv_wt")
    keep_wt = os.environ.get("SEED_KEEP_WT") == "1"
    meta = {"seed": sid, "property": prop, "ran": []}
    patch = os.path.join(out_dir, "patch.diff")
    demo = os.path.join(out_dir, "demo.rs")
    assert os.path.exists(patch) and os.path.exists(demo), "missing deliverables"
    if not os.path.exists(wt):
        c, o = sh(f"git -C /repo worktree add --detach {wt} HEAD")
        assert c == 0, o
    sh("git checkout -- . && git clean -fdq tests", cwd=wt)
    os.makedirs(os.path.join(wt, "tests"), exist_ok=True)
    shutil.copy(demo, os.path.join(wt, "tests", "demo.rs"))
    # SEED_DEMO_MIRI=1: the demonstration is an aliasing violation that only the Miri interpreter can show
    demo_cmd = "cargo test --offline --features ipnetwork,cidr,serde --test demo"
    if os.environ.get("SEED_DEMO_MIRI") == "1":
        demo_cmd = "env MIRIFLAGS=-Zmiri-disable-isolation cargo +nightly miri test --offline --test demo"
    c, o = sh(f"timeout 900 {demo_cmd} 2>&1 | tail -15", cwd=wt)
    ok_head = "test result: ok" in o and "FAILED" not in o
    meta["ran"].append({"cmd": "demo at HEAD", "passes": ok_head, "tail": o[-600:]})
    c, o = sh(f"git apply {patch}", cwd=wt)
    meta["ran"].append({"cmd": "git apply patch.diff", "ok": c == 0, "out": o[-300:]})
    applies = c == 0
    c, o = sh(f"timeout 900 {demo_cmd} 2>&1 | tail -25", cwd=wt)
    demo_fails = ("FAILED" in o or "panicked" in o or c == 124 or "error" in o) and "test result: ok" not in o
    meta["ran"].append({"cmd": "demo with patch", "fails": demo_fails, "tail": o[-900:]})
    os.remove(os.path.join(wt, "tests", "demo.rs"))
    c, o = sh("timeout 1500 cargo nextest run --workspace --no-fail-fast --offline 2>&1 | tail -4", cwd=wt, timeout=1600)
    m = re.search(r"(\d+) tests run: (\d+) passed", o)
    baseline_ok = bool(m) and m.group(1) == "150" and m.group(2) == "150"
    meta["ran"].append({"cmd": "baseline (150 tests) with patch", "passes": baseline_ok, "tail": o[-400:]})
    c2, o2 = sh("cargo build --offline --features ipnetwork,cidr,serde 2>&1 | tail -3", cwd=wt)
    meta["ran"].append({"cmd": "build --features ipnetwork,cidr,serde with patch", "ok": "Finished" in o2})
    sandbox = os.environ.get("SEED_SANDBOX") == "1"
    if not sandbox:
        sh("git checkout -- . && git clean -fdq tests", cwd=wt)
    meta["confirmed"] = bool(ok_head and applies and demo_fails and baseline_ok)
    meta["mode"] = "sandbox copy of /verif against the scratch worktree" if sandbox else "patch applied to /repo, checks run from /verif, patch undone"
    # ---- our checks against it
    results = {}
    vdir = "/verif"
    if sandbox:
        vdir = "/tmp/sv_verif"
        c, o = sh(f"mkdir -p {vdir} && rsync -a --delete --exclude target --exclude .work --exclude replays --exclude .git --exclude evidence /verif/ {vdir}/ && sed -i 's#path = \"/repo\"#path = \"{wt}\"#' {vdir}/harness/Cargo.toml {vdir}/sched/Cargo.toml {vdir}/alias/Cargo.toml 2>/dev/null; grep -n 'path = ' {vdir}/harness/Cargo.toml")
        assert wt in o, o
    else:
        st_c, st = sh("git -C /repo status --porcelain")
        assert st.strip() == "", f"/repo is not clean: {st}"
    if meta["confirmed"]:
        if not sandbox:
            c, o = sh(f"git -C /repo apply {patch}")
            assert c == 0, o
        try:
            for chk in checks:
                t0 = time.time()
                c, o = sh(f"./check {chk} --tier quick 2>&1 | tail -12", cwd=vdir, timeout=3000)
                lines = [l for l in o.splitlines() if l.startswith("VIOLATION") or l.startswith("MACHINERY") or l.startswith("  ")]
                results[chk] = {"exit": None, "detected": any(l.startswith(f"VIOLATION property={chk}") for l in lines), "lines": lines[:8], "wall_s": round(time.time() - t0, 1), "tail": o[-500:]}
        finally:
            if not sandbox:
                sh("git -C /repo checkout -- .")
            else:
                sh("git checkout -- . && git clean -fdq tests", cwd=wt)
    dst = os.path.join("/verif/seeded", sid)
    # keep the results of checks that were run earlier against this seed and not re-run now
    try:
        prev = json.load(open(os.path.join(dst, "meta.json"))).get("checks", {})
    except (OSError, ValueError):
        prev = {}
    merged = dict(prev)
    merged.update(results)
    results = merged
    meta["checks"] = results
    meta["detected_by"] = [k for k, v in results.items() if v["detected"]]
    os.makedirs(dst, exist_ok=True)
    for f in ("patch.diff", "demo.rs", "notes.md"):
        if os.path.exists(os.path.join(out_dir, f)):
            shutil.copy(os.path.join(out_dir, f), os.path.join(dst, f))
    notes = open(os.path.join(out_dir, "notes.md")).read() if os.path.exists(os.path.join(out_dir, "notes.md")) else ""
    meta["needs_to_manifest"] = notes[:1500]
    json.dump(meta, open(os.path.join(dst, "meta.json"), "w"), indent=1)
    if not keep_wt:
        sh(f"git -C /repo worktree remove --force {wt}")
    print(json.dumps({"seed": sid, "confirmed": meta["confirmed"], "detected_by": meta["detected_by"], "checks": {k: (v["detected"], v["lines"][:2]) for k, v in results.items()}}, indent=1))

if __name__ == "__main__":
    main()
