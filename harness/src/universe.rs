//! Key universes, embeddings into a prefix type of a given width, and query universes.

use std::collections::BTreeSet;

use crate::model::{mask128, norm};
use crate::ptypes::GK;

/// abstract bit string: (value of the bits as an integer, length)
pub type Abs = (u32, u8);

#[derive(Clone, Copy, Debug, PartialEq, Eq)]
pub enum Embed {
    /// bits at the top of the address; len = l
    Hi,
    /// fixed alternating head of (w-W) bits followed by the bits; len = w-W+l; plus the real /0
    Lo,
    /// alternating head of w/2-1 bits followed by the bits: the keys straddle the middle of the
    /// address (the 32/64-bit boundary of 64/128-bit representations); plus the real /0
    Mid,
}

#[derive(Clone, Debug)]
pub struct Universe {
    pub name: String,
    pub embed: Embed,
    pub width: u8,
    /// maximal abstract length
    pub depth: u8,
    /// keys in network form, sorted lexicographically
    pub keys: Vec<GK>,
    /// queries in network form, sorted; superset of keys
    pub queries: Vec<GK>,
}

pub fn abs_keys(name: &str) -> (Vec<Abs>, u8) {
    let all = |d: u8| -> Vec<Abs> {
        let mut v = vec![];
        for l in 0..=d {
            for b in 0..(1u32 << l) {
                v.push((b, l));
            }
        }
        v
    };
    match name {
        "U1" => (all(1), 1),
        "U2" => (all(2), 2),
        "U3" => (all(3), 3),
        "U4" => (all(4), 4),
        "U3half" => (
            vec![
                (0, 0),
                (0, 1),
                (1, 1),
                (0, 2),
                (1, 2),
                (0, 3),
                (1, 3),
                (2, 3),
                (3, 3),
            ],
            3,
        ),
        // a chain of nested prefixes 0^i for every length 0..=8 (needs an 8-bit type): paths of width+1 nodes
        "chain8" => ((0..=8u8).map(|i| (0u32, i)).collect(), 8),
        "comb5" | "comb4" | "comb6" => {
            let n: u8 = name[4..].parse().unwrap();
            let mut v = vec![];
            for i in 0..=n {
                v.push((0, i));
            }
            for i in 0..n {
                v.push((1, i + 1));
            }
            (v, n)
        }
        // a fork at depth 2 below a chain: exercises grandparent collapse with non-root grandparents
        "fork4" => (
            vec![
                (0, 0),
                (0, 1),
                (1, 2),      // 01
                (2, 3),      // 010
                (3, 3),      // 011
                (4, 4),      // 0100
                (5, 4),      // 0101
                (6, 4),      // 0110
                (1, 1),      // 1
            ],
            4,
        ),
        other => panic!("unknown universe {other}"),
    }
}

pub fn head_len(embed: Embed, width: u8, depth: u8) -> u8 {
    match embed {
        Embed::Hi => 0,
        Embed::Lo => width - depth,
        Embed::Mid => width / 2 - 1,
    }
}

pub fn head(width: u8, depth: u8) -> GK {
    head_mid(width - depth)
}

pub fn head_mid(hl: u8) -> GK {
    // alternating 1010...
    let pat: u128 = 0xAAAA_AAAA_AAAA_AAAA_AAAA_AAAA_AAAA_AAAA;
    (pat & mask128(hl), hl)
}

pub fn embed_key(a: Abs, embed: Embed, width: u8, depth: u8) -> GK {
    match embed {
        Embed::Hi => {
            if a.1 == 0 {
                (0, 0)
            } else {
                ((a.0 as u128) << (128 - a.1 as u32), a.1)
            }
        }
        Embed::Lo | Embed::Mid => {
            let (h, hl) = head_mid(head_len(embed, width, depth));
            let len = hl + a.1;
            if a.1 == 0 {
                (h, hl)
            } else {
                (h | ((a.0 as u128) << (128 - len as u32)), len)
            }
        }
    }
}

/// host-bit pattern for representation `rep` (0 = all zero, 1 = 0101.. pattern) of a key
pub fn with_rep(k: GK, rep: u8, width: u8) -> GK {
    if rep == 0 {
        norm(k)
    } else {
        let pat: u128 = 0x5555_5555_5555_5555_5555_5555_5555_5555;
        let host = pat & !mask128(k.1) & mask128(width);
        (norm(k).0 | host, k.1)
    }
}

impl Universe {
    pub fn new(name: &str, embed: Embed, width: u8) -> Self {
        let (abs, depth): (Vec<Abs>, u8) = if name == "chainW" {
            // nested prefixes of the alternating address for EVERY length 0..=width
            ((0..=width).map(|i| (0u32, i)).collect(), width)
        } else {
            abs_keys(name)
        };
        assert!(depth < width || (embed == Embed::Hi && depth == width));
        let mut keys: BTreeSet<GK> = if name == "chainW" {
            let pat: u128 = 0xAAAA_AAAA_AAAA_AAAA_AAAA_AAAA_AAAA_AAAA;
            abs.iter().map(|a| (pat & mask128(a.1), a.1)).collect()
        } else {
            abs.iter().map(|a| embed_key(*a, embed, width, depth)).collect()
        };
        if embed != Embed::Hi {
            keys.insert((0, 0));
        }
        let keys: Vec<GK> = keys.into_iter().collect();
        let mut q: BTreeSet<GK> = keys.iter().copied().collect();
        q.insert((0, 0));
        let interesting_len = |l: u8| -> bool {
            match embed {
                Embed::Hi => true,
                Embed::Lo | Embed::Mid => {
                    let hl = head_len(embed, width, depth);
                    l <= 3
                        || l + 3 >= hl
                        || l == hl / 2
                        || l == 8
                        || l == 7
                        || l == 9
                        || l == 64
                        || l == 63
                        || l == 65
                }
            }
        };
        for &k in &keys {
            // all (interesting) ancestors
            for l in 0..k.1 {
                if interesting_len(l) {
                    q.insert(norm((k.0, l)));
                    // and the prefix of that length that leaves the path at its last bit
                    if l > 0 {
                        let flipped = k.0 ^ (1u128 << (128 - l as u32));
                        q.insert(norm((flipped, l)));
                    }
                }
            }
            // sibling
            if k.1 > 0 {
                q.insert(norm((k.0 ^ (1u128 << (128 - k.1 as u32)), k.1)));
            }
            // one-bit extensions
            if k.1 < width {
                q.insert((k.0, k.1 + 1));
                q.insert((k.0 | (1u128 << (127 - k.1 as u32)), k.1 + 1));
            }
            // a full-length address below the key (all-ones tail, and all-zero tail)
            if k.1 < width {
                q.insert((k.0, width));
                q.insert(((k.0 | !mask128(k.1)) & mask128(width), width));
            }
        }
        let ename = match embed {
            Embed::Hi => "hi",
            Embed::Lo => "lo",
            Embed::Mid => "mid",
        };
        Universe {
            name: format!("{name}/{ename}/w{width}"),
            embed,
            width,
            depth,
            keys,
            queries: q.into_iter().collect(),
        }
    }

    pub fn key_id(&self, k: GK) -> Option<usize> {
        let k = norm(k);
        self.keys.binary_search(&k).ok()
    }
}

/// closed form for the number of shape states over the complete universe of depth d
/// (every well-formed shape over all prefixes of length <= d): total = 2*g(d)^2 where
/// g(1)=3, g(n)=2*g(n-1)^2+2*(g(n-1)-1)+1.
pub fn closed_form_shapes(depth: u8) -> u128 {
    let mut g: u128 = 3;
    for _ in 1..depth {
        g = 2 * g * g + 2 * (g - 1) + 1;
    }
    2 * g * g
}
