"""Texts for MANIFEST.json (one entry per property that has a plan in plans.py)."""

E1 = "E1 explicit-state explorer (harness/src/explore.rs)"
TB = ("Trusted: rustc/std, the reference model (harness/src/model.rs, ~150 lines over BTreeMap), the hook dump, "
      "and the state-key abstraction (values, slot numbers, free-list order dropped; DESIGN.md 2.2). "
      "Complete only relative to the key universes (all prefixes of length <= 2 embedded at the top and at the bottom of every shipped type in the quick tier; length <= 3 and a depth-5 comb in the thorough tier).")

CHECKS = {
    "C01": {
        "engine": E1,
        "technique": "explicit-state BFS to fixpoint over the real PrefixMap/PrefixSet with the full mutator alphabet, reference-model comparison on every transition and every query",
        "design_ref": "DESIGN.md 3 (C01), 2.1-2.3",
        "text": "Every state reachable by ANY finite history of the full public mutator alphabet over the key universe is visited (breadth-first search to fixpoint on the real data structure, for maps and sets, all 14 prefix types, top- and bottom-of-address embeddings). On every transition the call's return value and the complete iteration are compared with an abstract ordered map; in every state all exact-match observers are compared for every query of the query universe in both host-bit representations.",
        "note": TB,
    },
}

NOT_APPLICABLE = {}

ENGINES = [
    {"name": "E1-explore", "path": "harness/src/explore.rs", "serves_properties": ["C01"],
     "kind_free_text": "hand-rolled layered explicit-state BFS over the real implementation (clone-and-apply), canonical state key from the verification hook, per-transition and per-state oracles against a reference model"},
]

NOTES = ("All checks rebuild the harness against /repo's working tree (path dependency with feature verif-hooks). "
         "Exit 2 / MACHINERY-ERROR is never a verdict. Known findings live in KNOWN_FINDINGS.txt.")
