"""Per-property exploration plans, vacuity guards and the evidence writer."""
import json
import os

ROOT = os.path.dirname(os.path.abspath(__file__))

ALL = ["u8", "u16", "u32", "u64", "u128", "usize", "Ipv4Net", "Ipv6Net", "Ipv4Network", "Ipv6Network",
       "Ipv4Cidr", "Ipv6Cidr", "Ipv4Inet", "Ipv6Inet"]
# representative subset for the heavier observers in the quick tier: every width, every crate,
# one masked-only type
REP7 = ["u8", "u32", "u128", "Ipv4Net", "Ipv6Net", "Ipv4Cidr", "Ipv6Inet"]
MID4 = ["u64", "u128", "usize", "Ipv6Net"]

# measured on the unchanged tree (equal to the closed forms of DESIGN.md section 1)
EXPECTED_SHAPES = {
    ("U2", "hi", "full"): 1058, ("U2", "hi", "structural"): 1058, ("U2", "lo", "full"): 2206, ("U2", "lo", "structural"): 2206,
    ("U2", "hi", "canonical"): 128, ("U2", "lo", "canonical"): 256, ("U3", "hi", "canonical"): 32768,
    ("chain8", "hi", "structural"): 13122, ("U2", "mid", "full"): 2206, ("U2", "mid", "structural"): 2206, ("fork4", "hi", "structural"): 8010, ("comb6", "hi", "structural"): 336138,
    ("U3", "hi", "structural"): 2433218, ("U3", "hi", "full"): 2433218, ("comb5", "hi", "structural"): 48018, ("comb5", "hi", "full"): 48018,
}


def label(x):
    b = lambda v: "true" if v else "false"  # noqa: E731
    return f"{x.get('kind', 'map')} {x.get('ptype', 'u8')} {x.get('universe', 'U2')}/{x.get('embed', 'hi')} {x.get('alpha', 'full')} reps={b(x.get('reps', False))} layout={b(x.get('layout', False))}"


def is_heavy(r):
    """runs that hold millions of states: executed in a process of their own"""
    u = r.get("universe")
    if r.get("engine") == "explore":
        return (u in ("U3", "comb6") and r.get("alpha") != "canonical") or bool(r.get("layout")) or (u == "comb5" and r.get("alpha") == "full")
    if r.get("engine") in ("pairs", "eqpairs", "selfpairs"):
        return u in ("U3", "U3half") or bool(r.get("all_roots"))
    return False


def ex(kind, ptype, universe, embed, alpha, observers, **kw):
    d = {"engine": "explore", "kind": kind, "ptype": ptype, "universe": universe, "embed": embed, "alpha": alpha,
         "observers": observers, "threads": 1}
    d.update(kw)
    return d


def grid(kinds, types, universes, embeds, alpha, observers_map, observers_set=None, **kw):
    runs = []
    for k in kinds:
        obs = observers_map if k == "map" else (observers_set or [])
        for t in types:
            for u in universes:
                for e in embeds:
                    runs.append(ex(k, t, u, e, alpha, obs, **kw))
    return runs


# ------------------------------------------------------------------------------------------------
# plans
# ------------------------------------------------------------------------------------------------

def plan_c01(tier, seed):
    runs = grid(["map", "set"], ALL, ["U2"], ["hi", "lo"], "full", ["exact"], ["lookups"])
    runs += grid(["map", "set"], MID4, ["U2"], ["mid"], "full", ["exact"], ["lookups"])
    runs += grid(["map", "set"], ["u8"], ["fork4"], ["hi"], "structural", ["exact"], ["lookups"], retain_all=False, threads=4)
    runs += grid(["map", "set"], ["u8"], ["chain8"], ["hi"], "structural", ["exact"], ["lookups"], retain_all=False, threads=4)
    runs += [{"engine": "histories", "ptype": t, "universe": "chainW", "embed": "hi", "observers": ["exact"]} for t in ALL]
    if tier == "quick":
        runs += grid(["map"], ["u8"], ["U3"], ["hi"], "canonical", ["exact"], threads=8, retain_all=False)
    if tier == "thorough":
        # determinism double run (compared in guards()): same explorations with 1 and with 5 worker threads
        runs += [ex("map", "u8", "U2", "hi", "full", ["exact"], threads=5), ex("set", "Ipv6Net", "U2", "lo", "full", ["lookups"], threads=5),
                 ex("map", "u8", "fork4", "hi", "structural", ["exact"], retain_all=False, threads=1)]
        runs += grid(["map"], ["u8"], ["U3"], ["hi"], "structural", ["exact"], threads=16, retain_all=False)
        runs += grid(["map", "set"], ALL, ["comb5"], ["hi"], "structural", ["exact"], ["lookups"], retain_all=False)
        runs += grid(["map"], ["u8", "Ipv6Net"], ["U3"], ["hi"], "canonical", ["exact"], threads=4)
    return {"runs": runs}


def e1_plan(obs_map, obs_set, alpha="structural", quick_types=ALL, canonical_obs=None, thorough_extra=None, set_alpha=None, kinds=("map", "set")):
    """generic E1 plan: U2 hi+lo on `quick_types` in the quick tier; U3 / comb5 / all types in the thorough tier"""
    def f(tier, seed):
        types = ALL if tier == "thorough" else quick_types
        runs = grid(list(kinds), types, ["U2"], ["hi", "lo"], alpha, obs_map, obs_set, deep=(tier == "thorough"))
        # keys straddling the middle of the address (32/64-bit boundary of 64/128-bit representations)
        runs += grid(["map"], [t for t in MID4 if t in types], ["U2"], ["mid"], alpha, obs_map, obs_set)
        # a depth-4 fork below a chain (grandparent collapse with non-root grandparents, depth-4 sides)
        runs += grid(["map"], ["u8"], ["fork4"], ["hi"], "structural", obs_map, obs_set, retain_all=False, threads=4)
        # paths of width+1 nodes: every shape of the chain of all nine nested prefixes of an 8-bit address,
        # and fixed build/removal histories over the chain of ALL lengths 0..=width for every type
        runs += grid(["map"], ["u8"], ["chain8"], ["hi"], "structural", obs_map, obs_set, retain_all=False, threads=4)
        runs += [{"engine": "histories", "ptype": t, "universe": "chainW", "embed": "hi", "observers": obs_map} for t in ALL]
        if canonical_obs is not None:
            runs += grid(["map"], types, ["U2"], ["hi", "lo"], "canonical", canonical_obs)
        # every key set over all prefixes of length <= 3 (32 768 canonical shapes, bushy depth 3)
        if "find" not in obs_map and tier == "quick":
            runs += grid(["map"], ["u8"], ["U3"], ["hi"], "canonical", canonical_obs if canonical_obs is not None else obs_map, threads=8, retain_all=False)
        if tier == "thorough":
            runs += grid(["map"], ["u8"], ["U3"], ["hi"], "structural", obs_map, threads=16, retain_all=False)
            runs += grid(list(kinds), REP7, ["comb5"], ["hi"], "structural", obs_map, obs_set, retain_all=False)
            if canonical_obs is not None:
                runs += grid(["map"], ["u8", "Ipv6Net"], ["U3"], ["hi"], "canonical", canonical_obs, threads=4)
            if thorough_extra:
                runs += thorough_extra()
            # abstraction validation: the complete slot layout and free-list order in the state key
            runs += [ex("map", "u8", "U2", "hi", "structural", obs_map, threads=8, layout=True, max_states=30000000)]
        return {"runs": runs}
    return f


def pr(ptype, universe, embed, mode, alpha, right_alpha, right_kind="map", threads=4, **kw):
    d = {"engine": "pairs", "ptype": ptype, "universe": universe, "embed": embed, "mode": mode, "alpha": alpha, "right_alpha": right_alpha,
         "right_kind": right_kind, "threads": threads}
    d.update(kw)
    return d


def plan_pairs(tier, seed):
    """[E2] all ordered pairs of reachable states x pairs of view roots (C05-C08, C13, C18)"""
    runs = [
        # every shape x every shape, whole-map views
        pr("u8", "U2", "hi", "whole", "structural", "structural", threads=8),
        # canonical x all and all x canonical shapes, every pair of view roots (stored, branching, virtual; equal, nested, disjoint)
        pr("u8", "U2", "hi", "all", "canonical", "structural", threads=8),
        pr("u8", "U2", "hi", "all", "structural", "canonical", threads=8),
        # a set on the right (different value type)
        pr("u8", "U2", "hi", "all", "canonical", "structural", right_kind="set", threads=4),
        pr("u32", "U2", "hi", "whole", "structural", "structural", right_kind="set", threads=4),
        # sets on the left / on both sides
        pr("u16", "U2", "hi", "all", "canonical", "canonical", left_kind="set", right_kind="set", threads=2),
        pr("Ipv4Net", "U2", "hi", "whole", "structural", "structural", left_kind="set", right_kind="map", threads=4),
    ]
    # two views of the SAME map: every pair of read-only roots (nested, equal, disjoint) and every pair of
    # disjoint mutable views from recursive split
    runs += [{"engine": "selfpairs", "ptype": t, "universe": "U2", "embed": e, "threads": 2} for t in (REP7 if tier == "quick" else ALL) for e in ("hi", "lo")]
    # other types and the bottom-of-address embedding: canonical x canonical, all root pairs
    for t in (ALL if tier == "thorough" else REP7):
        for e in ("hi", "lo"):
            if (t, e) != ("u8", "hi"):
                runs.append(pr(t, "U2", e, "all", "canonical", "canonical", threads=2))
    if tier == "thorough":
        runs += [
            pr("u8", "U2", "hi", "all", "structural", "structural", threads=16, all_roots=True),
            pr("u32", "U2", "lo", "whole", "structural", "structural", threads=8),
            pr("u16", "U3half", "hi", "whole", "structural", "structural", threads=16),
            pr("u8", "U3half", "hi", "all", "canonical", "canonical", threads=16),
            pr("Ipv4Net", "U3half", "lo", "whole", "canonical", "structural", threads=16),
        ]
    return {"runs": runs, "jobs": 4 if tier == "quick" else 2,
            "rule": "pair engine: every ordered pair (a, b) of the listed reachable-state sets of real PrefixMaps/PrefixSets and every pair of view roots is evaluated with all eight set operations "
                    "against set comprehensions over the two reference models; distinct = (pair, root pair) evaluations with a non-empty union, plus the distinct shapes of the generating explorations"}


def plan_c13(tier, seed):
    p = e1_plan(["split_hold"], [], alpha="full", kinds=("map",))(tier, seed)
    # values reachable through two-step navigation (find from every view root)
    p["runs"] += grid(["map"], ["u8", "Ipv4Net"] if tier == "quick" else REP7, ["U2"], ["hi", "lo"], "structural", ["find"])
    q = plan_pairs(tier, seed)
    p["runs"] += q["runs"] + [{"engine": "selfpairs", "ptype": t, "universe": "U2", "embed": e, "threads": 2} for t in (REP7 if tier == "quick" else ALL) for e in ("hi", "lo")]
    p["jobs"] = 6
    # every reference of a traversal held at once and written again before each further library call (native build of /verif/alias)
    p["py_engines"] = list(p.get("py_engines", [])) + [run_alias_native]
    return p


def plan_c18(tier, seed):
    """representations are part of the state key: every (stored A|B) x (operation / query A|B) combination"""
    types = ["u8", "Ipv4Net", "Ipv6Inet"] if tier == "quick" else [t for t in ALL if "Cidr" not in t]
    runs = [ex("map", t, "U2", "hi", "repr", ["exact", "lpm", "cover", "children", "views"], reps=True, threads=6, retain_all=(tier == "thorough")) for t in types]
    runs += [ex("set", t, "U2", "hi", "repr", ["lookups"], reps=True, threads=2, retain_all=(tier == "thorough")) for t in types]
    runs += grid(["map"], ALL, ["U2"], ["lo"], "structural", ["exact", "lpm"], rep_mode=2)
    runs += plan_pairs(tier, seed)["runs"]
    return {"runs": runs, "jobs": 4}


def plan_c19(tier, seed):
    types = REP7 if tier == "quick" else ALL
    runs = [{"engine": "eqpairs", "kind": k, "ptype": t, "universe": "U2", "embed": e, "threads": 2} for k in ("map", "set") for t in types for e in ("hi", "lo")]
    runs += grid(["map"], ["u8", "Ipv4Net"] if tier == "quick" else ALL, ["U2"], ["hi", "lo"], "full", ["clone_indep"])
    if tier == "thorough":
        runs += [{"engine": "eqpairs", "kind": "map", "ptype": "Ipv4Net", "universe": "U3half", "embed": "hi", "threads": 16}]
    return {"runs": runs, "jobs": 8}


def plan_c17(tier, seed):
    return {"runs": [{"engine": "algebra", "ptype": t, "seed": seed, "deep": tier == "thorough"} for t in ALL], "jobs": 14,
            "rule": "every (address, length) value and every ordered pair of the 8-bit tuple type; for wider types all lengths x position of the first differing bit x head patterns x host-bit patterns, "
                    "every bit index 0..=255; a seeded random supplement is counted separately as sampled_pairs and never decides; distinct = values + pairs evaluated",
            "explanation": "exhaustive enumeration of the input space of the prefix algebra against a bit-by-bit reference (not a state-space search: the algebra is stateless)"}


def run_sched(tier, seed, wdir):
    """[E4] shuttle DFS over all interleavings of workers on disjoint mutable views (python side: build + fan out)"""
    import subprocess, time
    t0 = time.time()
    env = dict(os.environ, CARGO_NET_OFFLINE="true", CARGO_TARGET_DIR=os.path.join(ROOT, "target"))
    r = subprocess.run(["cargo", "build", "--release", "--offline"], cwd=os.path.join(ROOT, "sched"), env=env, stdout=subprocess.PIPE, stderr=subprocess.STDOUT, text=True)
    if r.returncode != 0:
        return {"engine": "sched", "machinery_error": "the schedule explorer does not build: " + r.stdout[-1500:], "found": []}
    vs = os.path.join(ROOT, "target", "release", "vs")
    sdir = os.path.join(wdir, "sched")
    os.makedirs(sdir, exist_ok=True)
    configs = [("u8", "U2", "hi", False)]
    if tier == "thorough":
        configs += [("u32", "U2", "lo", False), ("Ipv6Net", "U2", "hi", False), ("u8", "U2", "hi", True)]
    procs = []
    n = 16
    for ci, (t, u, e, full) in enumerate(configs):
        for i in range(n):
            spec = {"engine": "sched", "ptype": t, "universe": u, "embed": e, "a_mod": n, "a_rem": i, "full": full, "yield_on_reads": False,
                    "max_schedules": 300000, "sched_dir": os.path.join(sdir, f"persist_{ci}_{i}")}
            sp, op = os.path.join(sdir, f"spec_{ci}_{i}.json"), os.path.join(sdir, f"out_{ci}_{i}.json")
            json.dump(spec, open(sp, "w"))
            if os.path.exists(op):
                os.remove(op)
            procs.append((subprocess.Popen([vs, "run", sp, op], env=env, stdout=subprocess.DEVNULL, stderr=subprocess.DEVNULL), op))
            if len([p for p, _ in procs if p.poll() is None]) >= 16:
                for p, _ in procs:
                    if p.poll() is None:
                        p.wait()
                        break
    outs = []
    for p, op in procs:
        p.wait()
        if p.returncode != 0 or not os.path.exists(op):
            return {"engine": "sched", "machinery_error": f"schedule explorer exited with {p.returncode}", "found": []}
        outs.append(json.load(open(op)))
    merged = {"engine": "sched", "run": f"shuttle DFS: workers on disjoint mutable views, {len(configs)} configuration(s) x {n} slices", "spec": outs[0]["spec"],
              "states": sum(o["states"] for o in outs[::n]), "shape_states": sum(o["shape_states"] for o in outs[::n]), "transitions": sum(o["transitions"] for o in outs[::n]),
              "harnesses": sum(o["harnesses"] for o in outs), "schedules": sum(o["schedules"] for o in outs), "evaluations": sum(o["schedules"] for o in outs),
              "distinct_outcomes": sum(o["harnesses"] for o in outs), "capped_harnesses": sum(o["capped_harnesses"] for o in outs),
              "max_node_accesses_per_schedule": max(o["max_node_accesses_per_schedule"] for o in outs),
              "exhaustive": all(o["exhaustive"] for o in outs), "cap_hit": next((o["cap_hit"] for o in outs if o.get("cap_hit")), None),
              "wall_s": time.time() - t0, "samples": [s_ for o in outs for s_ in o.get("samples", [])][:2], "found": []}
    seen = set()
    for o in outs:
        for f in o.get("found", []):
            if (f["site"], f["cond"]) not in seen:
                seen.add((f["site"], f["cond"]))
                f["run_spec"] = o["spec"]
                merged["found"].append(f)
    return merged


def run_alias_native(tier, seed, wdir):
    import alias
    return alias.run_native(tier, seed, wdir)


def run_alias_miri(tier, seed, wdir):
    import alias
    return alias.run_miri(tier, seed, wdir)


def run_programs(tier, seed, wdir):
    import programs
    return programs.run(tier, seed, wdir)


def plan_c14(tier, seed):
    types = REP7 if tier == "quick" else ALL
    runs = grid(["map"], types, ["U2"], ["hi", "lo"], "full", ["split_hold"])
    runs += [{"engine": "selfpairs", "ptype": t, "universe": "U2", "embed": e, "threads": 2} for t in types for e in ("hi", "lo")]
    runs += [pr("u8", "U2", "hi", "whole", "structural", "structural", threads=8), pr("u8", "U2", "hi", "all", "canonical", "canonical", threads=4)]
    return {"runs": runs, "py_engines": [run_programs, run_sched, run_alias_miri], "jobs": 8,
            "rule": "four clauses: (0) every small map x view root x mutable traversal (and pair of maps x *_mut set operation) executed by the Miri interpreter while all references obtained so far are "
                    "held and written again before every further library call; the interpreter's aliasing model (Stacked Borrows; Tree Borrows too in the thorough tier) is the oracle; (1) addresses of all simultaneously live mutable references, exhaustively over states / pairs of states; (2) shuttle DFS over every interleaving of workers that mutate "
                    "pairwise disjoint views (scheduling point at every arena node write, footprints logged at every access); (3) a bounded grammar of client programs with rustc as oracle. "
                    "distinct = shapes + harnesses + programs rejected as required"}


def plan_c20(tier, seed):
    read_obs = ["exact", "lpm", "iters", "cover", "children", "views", "wf", "split_hold"]
    runs = grid(["map", "set"], ALL, ["U2"], ["hi", "lo"], "full", [], [])
    runs += grid(["map", "set"], REP7 if tier == "quick" else ALL, ["U2"], ["hi", "lo"], "structural", read_obs, ["lookups", "iters", "views"], deep=(tier == "thorough"))
    runs += grid(["map"], ["u8", "Ipv6Net"], ["U2"], ["hi", "lo"], "structural", ["find"])
    runs += grid(["map"], ALL, ["U2"], ["hi", "lo"], "structural", ["faults"])
    runs += [ex("map", "u8", "U2", "hi", "structural", ["handles"], threads=4), ex("map", "Ipv4Net", "U2", "lo", "structural", ["handles"], threads=4),
             ex("map", "u128", "U2", "lo", "structural", ["handles"], threads=4)]
    runs += [pr("u8", "U2", "hi", "whole", "structural", "structural", threads=8)]
    runs += [pr(t, "U2", "lo", "all", "canonical", "canonical", threads=2) for t in ["u8", "u64", "Ipv6Net", "Ipv4Inet"]]
    runs += [{"engine": "algebra", "ptype": t, "seed": seed, "deep": False} for t in ALL]
    runs += grid(["map", "set"], ["u8"], ["chain8"], ["hi"], "structural", read_obs, ["lookups", "iters", "views"], retain_all=False, threads=4)
    runs += [{"engine": "histories", "ptype": t, "universe": "chainW", "embed": "hi", "observers": read_obs + ["find", "children"]} for t in ALL]
    plan = {"runs": runs, "jobs": 8,
            "rule": "every call issued by the explorers, observers, pair engine and algebra engine runs under catch_unwind in a build with overflow checks and debug assertions; "
                    "handle-level programs (<= 2 non-consuming calls then one consuming call; <= 3 in the thorough tier) on entries and mutable views; a panic injected at every "
                    "invocation index of every callback for every keep-subset; iterator step caps and a pending-call watchdog for divergence; distinct = shapes + evaluated pairs"}
    if tier == "thorough":
        runs += grid(["map"], ["u8"], ["U3"], ["hi"], "structural", ["exact", "lpm", "cover"], threads=16, retain_all=False)
        runs += grid(["map"], ["u8"], ["U3"], ["hi"], "canonical", ["faults"], threads=8)
        runs += grid(["map", "set"], ALL, ["comb5"], ["hi", "lo"], "structural", ["exact", "iters", "views"], ["lookups", "iters"], retain_all=False)
        runs += [ex("map", t, "U2", e, "structural", ["handles"], threads=4, deep=True) for t in ["u8", "u16", "Ipv4Cidr", "Ipv6Inet"] for e in ["hi", "lo"]]
        # the same explorations in a plain release build (no overflow checks, no debug assertions)
        plan["plain_runs"] = grid(["map", "set"], ALL, ["U2"], ["hi", "lo"], "full", ["exact", "lpm", "iters"], ["lookups", "iters"]) + [{"engine": "algebra", "ptype": t, "seed": seed, "deep": True} for t in ALL]
    return plan


def plan_c12(tier, seed):
    """find() from every view root x every query is quadratic in the query universe: the full U3 exploration
    (7 M states) is replaced by canonical U3 in the thorough tier"""
    p = e1_plan(["find"], [], quick_types=REP7, kinds=("map",))(tier, seed)
    if tier == "thorough":
        p["runs"] = [r for r in p["runs"] if not (r.get("universe") == "U3" and r.get("alpha") == "structural") and not r.get("layout")]
        p["runs"] += grid(["map"], ["u8"], ["U3"], ["hi"], "canonical", ["find"], threads=16, retain_all=False)
        p["runs"] += grid(["map"], ["u8"], ["U3half"], ["hi"], "structural", ["find"], threads=16, retain_all=False)
    return p


def plan_c11(tier, seed):
    p = e1_plan(["views"], ["views"], canonical_obs=["views"])(tier, seed)
    # views obtained by find() from every view root are views like any other (value, sides)
    p["runs"] += grid(["map"], ["u8", "Ipv4Net"] if tier == "quick" else REP7, ["U2"], ["hi", "lo"], "structural", ["find"])
    return p


PLANS = {
    "C01": plan_c01,
    "C20": plan_c20,
    "C14": plan_c14,
    "C17": plan_c17,
    "C13": plan_c13,
    "C16": e1_plan(["churn"], [], alpha="full"),
    "C18": plan_c18,
    "C19": plan_c19,
    "C05": plan_pairs,
    "C06": plan_pairs,
    "C07": plan_pairs,
    "C08": plan_pairs,
    "C02": e1_plan(["lpm"], ["lookups"]),
    "C03": e1_plan(["iters"], ["iters"]),
    "C04": e1_plan([], [], alpha="full"),
    "C09": e1_plan(["cover"], ["lookups"]),
    "C10": e1_plan(["children"], ["lookups"], alpha="full"),
    "C11": plan_c11,
    "C12": plan_c12,
    "C15": e1_plan(["wf"], [], alpha="full", canonical_obs=["wf"], kinds=("map",)),
}


# ------------------------------------------------------------------------------------------------
# guards
# ------------------------------------------------------------------------------------------------

def guards(prop, tier, plan, runs):
    """conditions under which a silent run must not be believed"""
    problems = []
    # determinism: the same exploration with a different number of worker threads must visit the same states
    groups = {}
    for r in runs:
        if r.get("engine") == "explore" and r.get("exhaustive") and not r.get("found"):
            sp = dict(r["spec"])
            sp.pop("threads", None)
            groups.setdefault(json.dumps(sp, sort_keys=True), []).append((r["states"], r["transitions"], r.get("digest")))
    for k, v in groups.items():
        if len(set(v)) > 1:
            problems.append(f"non-deterministic exploration: {v} for {k[:200]}")
    for r in runs:
        if r.get("engine") == "explore":
            sp = r["spec"]
            if r["states"] < 2 or r["transitions"] < 1:
                problems.append(f"vacuous exploration: {r['run']} has {r['states']} states")
        if r.get("cap_hit") and "resident memory" in str(r.get("cap_hit")) and not r.get("found"):
            # the memory cap is a property of the machine, not of the library: never a silent pass
            problems.append(f"{r.get('run')}: {r['cap_hit']}")
    return problems


def shape_notes(runs):
    notes = []
    for r in runs:
        if r.get("engine") != "explore":
            continue
        sp = r["spec"]
        exp = EXPECTED_SHAPES.get((sp.get("universe"), sp.get("embed", "hi"), sp.get("alpha", "full")))
        if exp is not None and r["exhaustive"] and r["shape_states"] != exp:
            notes.append(f"{r['run']}: {r['shape_states']} shape states, {exp} on the reference tree")
    return notes


# ------------------------------------------------------------------------------------------------
# evidence
# ------------------------------------------------------------------------------------------------

LEVELS = {"C17": "exploration"}


def write_evidence(prop, tier, seed, plan, runs, wall, violations=0, build_s=0.0, known_hits=None, note=None):
    os.makedirs(os.path.join(ROOT, "evidence"), exist_ok=True)
    level = LEVELS.get(prop, "model_checking")
    ex_runs = [r for r in runs if r.get("engine") == "explore"]
    states = sum(r.get("states", 0) for r in runs)
    transitions = sum(r.get("transitions", 0) for r in runs)
    evals = sum(r.get("observer_evals", 0) + r.get("evaluations", 0) for r in runs)
    samples = []
    for r in runs:
        for s in r.get("samples", [])[:1]:
            samples.append({"run": r.get("run"), "case": s})
        if len(samples) >= 6:
            break
    if not samples:
        samples = [{"note": "no run produced a sample"}]
    exhaustive = all(r.get("exhaustive", True) for r in runs) and bool(runs)
    caps = [f"{r.get('run')}: {r.get('cap_hit')}" for r in runs if r.get("cap_hit")]
    per_run = [{k: r.get(k) for k in ("run", "engine", "states", "shape_states", "canonical_states", "transitions", "self_loops", "layers",
                                         "observer_evals", "evaluations", "distinct_outcomes", "exhaustive", "cap_hit", "digest", "wall_s", "pruned", "schedules", "programs") if r.get(k) is not None}
               for r in runs]
    op_counts = {}
    for r in ex_runs:
        for k, v in (r.get("op_counts") or {}).items():
            op_counts[k] = op_counts.get(k, 0) + v
    cov = {
        "states": states,
        "transitions": transitions,
        "traces_validated_against_impl": transitions,
        "samples": samples,
        "evaluations": evals + transitions,
        "distinct_nontrivial": max(sum(r.get("shape_states", 0) + r.get("distinct_outcomes", 0) for r in runs), 0),
        "rule": plan.get("rule", "every explored state is a real PrefixMap/PrefixSet reached by a breadth-first search to fixpoint over the key universe; "
                         "every transition executes the real operation and is compared with the reference model; distinct = distinct tree shapes (pre-order of prefix, value flag, child flags) "
                         "summed over runs, each of which contains at least one stored entry except the single empty shape per run"),
        "exhaustive": exhaustive,
        "caps_hit": caps,
        "runs": per_run,
        "operation_counts": op_counts,
        "shape_count_notes": shape_notes(runs),
        "known_finding_hits": known_hits or {},
        "explanation": plan.get("explanation", "bounded-exhaustive explicit-state exploration of the real implementation against a reference model"),
    }
    for k in ("programs", "schedules", "faults_injected", "pairs"):
        tot = sum(r.get(k, 0) or 0 for r in runs)
        if tot:
            cov[k] = tot
    if note:
        cov["note"] = note
    ev = {
        "property_id": prop, "tier": tier, "seed": seed, "level": level, "coverage": cov,
        "assumptions": plan.get("assumptions", [
            "completeness is relative to the key universes listed per run (DESIGN.md section 2.1)",
            "state key drops value contents, slot numbers and free-list order (arguments and validation runs: DESIGN.md section 2.2)",
            "the verification hook (cargo feature verif-hooks) dumps the arena faithfully; rustc, std and the prefix crates (ipnet, ipnetwork, cidr) are trusted",
        ]),
        "wall_s": round(wall, 2), "violations": violations,
    }
    with open(os.path.join(ROOT, "evidence", f"{prop}.json"), "w") as f:
        json.dump(ev, f, indent=1)


def replay_program(path):
    import programs
    return programs.replay(path)
