//! The two systems under test behind one trait: `PrefixMap<P, u32>` and `PrefixSet<P>`.

use prefix_trie::verif::ArenaDump;
use prefix_trie::{AsViewMut, PrefixMap, PrefixSet};

use crate::arena::Walk;
use crate::expect;
use crate::model::{covers, norm, Model, Obs};
use crate::ops::{self, cap, mkp, top_node_under, Alphabet, Cx, Op, K};
use crate::ptypes::{PType, GK};
use crate::universe::{with_rep, Universe};
use crate::viol::Viol;

pub trait Sut: Clone + Send + Sync + 'static {
    type P: PType;
    const KIND: &'static str;
    const LEN_SITE: &'static str;
    const IS_EMPTY_SITE: &'static str;
    const ITER_SITE: &'static str;
    const CLEAR_SITE: &'static str;
    fn new_empty() -> Self;
    fn dump(&self) -> ArenaDump;
    fn len(&self) -> usize;
    fn is_empty(&self) -> bool;
    /// all entries through the plain shared iterator
    fn entries(&self) -> Vec<Obs>;
    fn apply(&mut self, model: &mut Model, w: &Walk, op: Op, tok: u32, cx: &Cx) -> Vec<Viol>;
    fn enumerate_ops(uni: &Universe, model: &Model, alpha: Alphabet, rep_mode: u8, retain_all: bool) -> Vec<Op>;
    /// run the mutable traversals on a (possibly corrupt) structure and report aliasing references
    fn alias_probe(&self) -> Option<Viol> {
        None
    }
}

impl<P: PType> Sut for PrefixMap<P, u32> {
    type P = P;
    const KIND: &'static str = "map";
    const LEN_SITE: &'static str = "PrefixMap::len";
    const IS_EMPTY_SITE: &'static str = "PrefixMap::is_empty";
    const ITER_SITE: &'static str = "PrefixMap::iter";
    const CLEAR_SITE: &'static str = "PrefixMap::clear";
    fn new_empty() -> Self {
        PrefixMap::new()
    }
    fn dump(&self) -> ArenaDump {
        self.verif_dump()
    }
    fn len(&self) -> usize {
        PrefixMap::len(self)
    }
    fn is_empty(&self) -> bool {
        PrefixMap::is_empty(self)
    }
    fn entries(&self) -> Vec<Obs> {
        ops::collect_iter(self)
    }
    fn apply(&mut self, model: &mut Model, w: &Walk, op: Op, tok: u32, cx: &Cx) -> Vec<Viol> {
        ops::apply(self, model, w, op, tok, cx)
    }
    fn enumerate_ops(uni: &Universe, model: &Model, alpha: Alphabet, rep_mode: u8, retain_all: bool) -> Vec<Op> {
        ops::enumerate_ops(uni, model, alpha, rep_mode, retain_all)
    }
    fn alias_probe(&self) -> Option<Viol> {
        let mut c = self.clone();
        let lim = cap(PrefixMap::len(&c)) + 64;
        let mut addrs: Vec<usize> = c.iter_mut().take(lim).map(|(_, v)| v as *mut u32 as usize).collect();
        let n = addrs.len();
        addrs.sort();
        addrs.dedup();
        if addrs.len() != n {
            return Some(Viol::new("C14", "PrefixMap::iter_mut", "aliasing-mutable-references", format!("{n} mutable references handed out, only {} distinct addresses", addrs.len())));
        }
        let mut views = vec![];
        fn split_all<'a, P: PType>(v: prefix_trie::TrieViewMut<'a, P, u32>, d: usize, acc: &mut Vec<prefix_trie::TrieViewMut<'a, P, u32>>) {
            if d == 0 || !(v.has_left() || v.has_right()) {
                acc.push(v);
                return;
            }
            let (l, r) = v.split();
            if let Some(l) = l {
                split_all(l, d - 1, acc);
            }
            if let Some(r) = r {
                split_all(r, d - 1, acc);
            }
        }
        split_all(c.view_mut(), 6, &mut views);
        let mut addrs: Vec<usize> = views.into_iter().flat_map(|v| v.into_iter().take(lim).map(|(_, x)| x as *mut u32 as usize).collect::<Vec<_>>()).collect();
        let n = addrs.len();
        addrs.sort();
        addrs.dedup();
        if addrs.len() != n {
            return Some(Viol::new("C14", "TrieViewMut::split + into_iter", "aliasing-mutable-references", format!("{n} mutable references handed out by disjoint views, only {} distinct addresses", addrs.len())));
        }
        None
    }
}

pub fn set_obs<P: PType>(p: &P) -> Obs {
    let r = p.raw();
    (r.0, r.1, 0)
}

impl<P: PType> Sut for PrefixSet<P> {
    type P = P;
    const KIND: &'static str = "set";
    const LEN_SITE: &'static str = "PrefixSet::len";
    const IS_EMPTY_SITE: &'static str = "PrefixSet::is_empty";
    const ITER_SITE: &'static str = "PrefixSet::iter";
    const CLEAR_SITE: &'static str = "PrefixSet::clear";
    fn new_empty() -> Self {
        PrefixSet::new()
    }
    fn dump(&self) -> ArenaDump {
        self.verif_dump()
    }
    fn len(&self) -> usize {
        PrefixSet::len(self)
    }
    fn is_empty(&self) -> bool {
        PrefixSet::is_empty(self)
    }
    fn entries(&self) -> Vec<Obs> {
        self.iter().take(cap(PrefixSet::len(self))).map(set_obs).collect()
    }
    fn apply(&mut self, model: &mut Model, w: &Walk, op: Op, _tok: u32, cx: &Cx) -> Vec<Viol> {
        let mut out: Vec<Viol> = vec![];
        let uni = cx.uni;
        let k: GK = with_rep(uni.keys[op.key as usize], op.rep, uni.width);
        let nk = norm(k);
        let p: P = mkp(k);
        let stored_k: GK = if P::KEEPS_HOST { k } else { nk };
        match op.kind {
            K::Insert => {
                let got = self.insert(p);
                let want = model.insert(stored_k, 0).is_none();
                expect!(out, got == want, "C01", "PrefixSet::insert", "return-value", "insert({:x?}) returned {}, model {}", k, got, want);
            }
            K::Remove => {
                let got = self.remove(&p);
                let want = model.remove(nk).is_some();
                expect!(out, got == want, "C01", "PrefixSet::remove", "return-value", "remove({:x?}) returned {}, model {}", k, got, want);
            }
            K::RemoveKeepTree => {
                let got = self.remove_keep_tree(&p);
                let want = model.remove(nk).is_some();
                expect!(out, got == want, "C01", "PrefixSet::remove_keep_tree", "return-value", "remove_keep_tree({:x?}) returned {}, model {}", k, got, want);
            }
            K::RemoveChildren => {
                self.remove_children(&p);
                for key in model.keys() {
                    if covers(nk, key) {
                        model.remove(key);
                    }
                }
            }
            K::Clear => {
                self.clear();
                model.clear();
            }
            K::Retain => {
                let before = model.entries();
                let mut calls: Vec<Obs> = vec![];
                let keep = |o: &Obs| -> bool { uni.key_id(norm((o.0, o.1))).map(|id| op.arg.checked_shr(id as u32).map(|x| x & 1 == 1).unwrap_or(false)).unwrap_or(true) };
                self.retain(|p| {
                    let o = set_obs(p);
                    calls.push(o);
                    keep(&o)
                });
                let mut sorted = calls.clone();
                sorted.sort_by_key(|o| norm((o.0, o.1)));
                expect!(out, sorted == before, "C10", "PrefixSet::retain", "predicate-once-per-entry", "predicate calls {:x?}, stored entries {:x?}", calls, before);
                for o in &before {
                    if !keep(o) {
                        model.remove((o.0, o.1));
                    }
                }
            }
            K::ViewSet | K::ViewRemove => {
                let exists_under = top_node_under(w, nk).is_some();
                let v = if op.arg == 0 { (&mut *self).view_mut_at(p) } else { (&mut *self).view_mut().find(p).ok() };
                let site = if op.arg == 0 { "PrefixSet::view_mut_at" } else { "PrefixSet::view_mut().find" };
                match v {
                    None => {
                        expect!(out, !exists_under || model.under(nk).is_empty(), "C11", site, "view-missing", "query {:x?}", k);
                    }
                    Some(mut v) => {
                        expect!(out, exists_under, "C11", site, "view-unexpected", "query {:x?}", k);
                        let at = norm(v.prefix().raw());
                        expect!(out, at == nk, "C11", site, "view-at-wrong-position", "query {:x?} view at {:x?}", k, at);
                        let view_repr = v.prefix().raw();
                        let is_node = w.nodes.iter().any(|n| n.key == at);
                        let had = model.get(at).is_some();
                        expect!(out, v.value().is_some() == had, "C11", "TrieViewMut::value", "value", "view at {:x?}", at);
                        if op.kind == K::ViewSet {
                            match v.set(()) {
                                Ok(old) => {
                                    expect!(out, is_node, "C11", "TrieViewMut::set", "set-succeeded-on-virtual", "view at {:x?}", at);
                                    expect!(out, old.is_some() == had, "C01", "TrieViewMut::set", "return-value", "set at {:x?} returned {:?}, model had entry: {}", at, old, had);
                                    if !had {
                                        model.insert(view_repr, 0);
                                    }
                                }
                                Err(()) => {
                                    expect!(out, !is_node, "C11", "TrieViewMut::set", "set-failed-on-node", "view at {:x?}", at);
                                }
                            }
                        } else {
                            let got = v.remove();
                            expect!(out, got.is_some() == had, "C01", "TrieViewMut::remove", "return-value", "remove at {:x?} returned {:?}, model had entry: {}", at, got, had);
                            if had {
                                model.remove(at);
                            }
                        }
                    }
                }
            }
            K::CloneSelf => {
                let before = self.verif_dump();
                let c = self.clone();
                let a = self.verif_dump();
                let same = before.arena_len == a.arena_len && before.free == a.free && before.count == a.count && before.slots == a.slots;
                expect!(out, same, "C19", "PrefixSet::clone", "clone-changes-original", "clone() changed the original set");
                *self = c;
            }
            K::Recollect | K::RecollectRev => {
                let old = std::mem::take(self);
                let n = PrefixSet::len(&old);
                let mut items: Vec<P> = old.into_iter().take(cap(n)).collect();
                if op.kind == K::RecollectRev {
                    items.reverse();
                }
                *self = items.into_iter().collect();
            }
            K::FromIterDup => {
                let old = std::mem::take(self);
                let n = PrefixSet::len(&old);
                let first: Vec<P> = old.into_iter().take(cap(n)).collect();
                let mut seq: Vec<P> = first.clone();
                for p in first.iter() {
                    let r = p.raw();
                    let nk = norm(r);
                    let other = if r == with_rep(nk, 1, uni.width) { with_rep(nk, 0, uni.width) } else { with_rep(nk, 1, uni.width) };
                    let other = if P::KEEPS_HOST { other } else { nk };
                    seq.push(mkp(other));
                    model.insert(other, 0);
                }
                *self = seq.into_iter().collect();
            }
            K::CloneFrom => {
                let mut dst: PrefixSet<P> = PrefixSet::new();
                let ks = &uni.keys;
                for k in ks.iter().take(4) {
                    dst.insert(mkp(*k));
                }
                for k in ks.iter().take(4).skip(1) {
                    dst.remove(&mkp::<P>(*k));
                }
                dst.clone_from(self);
                *self = dst;
            }
            K::FromIterBig => {
                let old = std::mem::take(self);
                let n = PrefixSet::len(&old);
                let first: Vec<P> = old.into_iter().take(cap(n)).collect();
                let mut seq: Vec<P> = vec![];
                for round in 0..6u32 {
                    let mut items: Vec<GK> = first
                        .iter()
                        .enumerate()
                        .map(|(i, p)| {
                            let nk = norm(p.raw());
                            let k = with_rep(nk, ((round + i as u32) % 2) as u8, uni.width);
                            if P::KEEPS_HOST {
                                k
                            } else {
                                nk
                            }
                        })
                        .collect();
                    items.sort_by_key(|k| k.1);
                    if round % 2 == 0 {
                        items.reverse();
                    }
                    for k in items {
                        seq.push(mkp(k));
                        model.insert(k, 0);
                    }
                }
                *self = seq.into_iter().collect();
            }
            other => panic!("operation {other:?} is not part of the set alphabet"),
        }
        out
    }
    fn enumerate_ops(uni: &Universe, model: &Model, alpha: Alphabet, rep_mode: u8, retain_all: bool) -> Vec<Op> {
        let all = ops::enumerate_ops(uni, model, alpha, rep_mode, retain_all);
        let mut v: Vec<Op> = all
            .into_iter()
            .filter(|o| match o.kind {
                K::Insert | K::Remove | K::RemoveKeepTree | K::RemoveChildren | K::Clear | K::Retain | K::CloneSelf | K::Recollect | K::RecollectRev | K::FromIterDup | K::FromIterBig | K::CloneFrom => true,
                K::ViewSet | K::ViewRemove => o.arg <= 1,
                _ => false,
            })
            .collect();
        v.dedup();
        v
    }
}
