//! The boring reference model: an ordered map keyed by (masked left-aligned address, length).
//! It never looks at tree shape, and computes masks / coverage bit-by-bit on u128, independently of
//! `prefix_trie::prefix`.

use crate::ptypes::GK;

#[inline]
pub fn mask128(len: u8) -> u128 {
    if len == 0 {
        0
    } else if len >= 128 {
        u128::MAX
    } else {
        u128::MAX << (128 - len as u32)
    }
}

/// network form of a generic key
#[inline]
pub fn norm(k: GK) -> GK {
    (k.0 & mask128(k.1), k.1)
}

/// `a` covers `b` (equal prefixes cover each other). Both may carry host bits.
#[inline]
pub fn covers(a: GK, b: GK) -> bool {
    a.1 <= b.1 && (b.0 & mask128(a.1)) == (a.0 & mask128(a.1))
}

/// the bit of `k` at position `i` (0 = most significant), false at or beyond the length.
#[inline]
pub fn bit(k: GK, i: u8) -> bool {
    i < k.1 && (k.0 >> (127 - i as u32)) & 1 == 1
}

/// number of equal leading bits of the two network parts, capped by both lengths.
pub fn common_len(a: GK, b: GK) -> u8 {
    let mut n = 0u8;
    while n < a.1 && n < b.1 && bit(a, n) == bit(b, n) {
        n += 1;
    }
    n
}

#[derive(Clone, Debug, PartialEq, Eq, PartialOrd, Ord, Hash)]
pub struct Ent {
    /// the representation (left-aligned raw address incl. host bits) recorded for the entry
    pub repr: u128,
    pub val: u32,
}

/// An entry as observed: (stored representation, length, value)
pub type Obs = (u128, u8, u32);

/// the abstract ordered map: a vector sorted by (masked address, length). (A `BTreeMap` would do; the
/// vector keeps millions of explored states small.)
#[derive(Clone, Debug, Default, PartialEq, Eq)]
pub struct Model {
    v: Vec<(GK, Ent)>,
}

impl Model {
    pub fn new() -> Self {
        Self::default()
    }
    pub fn len(&self) -> usize {
        self.v.len()
    }
    pub fn is_empty(&self) -> bool {
        self.v.is_empty()
    }
    pub fn clear(&mut self) {
        self.v.clear();
    }
    fn pos(&self, k: GK) -> Result<usize, usize> {
        self.v.binary_search_by(|(x, _)| x.cmp(&k))
    }
    pub fn get(&self, q: GK) -> Option<&Ent> {
        self.pos(norm(q)).ok().map(|i| &self.v[i].1)
    }
    pub fn obs_of(&self, q: GK) -> Option<Obs> {
        let k = norm(q);
        self.get(k).map(|e| (e.repr, k.1, e.val))
    }
    /// insert, replacing representation and value; returns the previous value
    pub fn insert(&mut self, k: GK, val: u32) -> Option<u32> {
        let nk = norm(k);
        match self.pos(nk) {
            Ok(i) => {
                let old = self.v[i].1.val;
                self.v[i].1 = Ent { repr: k.0, val };
                Some(old)
            }
            Err(i) => {
                self.v.insert(i, (nk, Ent { repr: k.0, val }));
                None
            }
        }
    }
    /// write a value without touching the representation; entry must exist
    pub fn set_val(&mut self, k: GK, val: u32) {
        let i = self.pos(norm(k)).expect("set_val on a missing entry");
        self.v[i].1.val = val;
    }
    pub fn remove(&mut self, k: GK) -> Option<u32> {
        self.pos(norm(k)).ok().map(|i| self.v.remove(i).1.val)
    }
    /// all entries in lexicographic order
    pub fn entries(&self) -> Vec<Obs> {
        self.v.iter().map(|(k, e)| (e.repr, k.1, e.val)).collect()
    }
    /// the entries whose prefix is covered by `q`, in order
    pub fn under(&self, q: GK) -> Vec<Obs> {
        self.v.iter().filter(|(k, _)| covers(q, *k)).map(|(k, e)| (e.repr, k.1, e.val)).collect()
    }
    /// the entries whose prefix covers `q`, by increasing length
    pub fn cover(&self, q: GK) -> Vec<Obs> {
        let mut v: Vec<(GK, &Ent)> = self.v.iter().filter(|(k, _)| covers(*k, q)).map(|(k, e)| (*k, e)).collect();
        v.sort_by_key(|(k, _)| k.1);
        v.into_iter().map(|(k, e)| (e.repr, k.1, e.val)).collect()
    }
    pub fn lpm(&self, q: GK) -> Option<Obs> {
        self.cover(q).last().copied()
    }
    pub fn spm(&self, q: GK) -> Option<Obs> {
        self.cover(q).first().copied()
    }
    pub fn keys(&self) -> Vec<GK> {
        self.v.iter().map(|(k, _)| *k).collect()
    }
    /// restriction to the entries under `q`
    pub fn restrict(&self, q: GK) -> Model {
        Model { v: self.v.iter().filter(|(k, _)| covers(q, *k)).cloned().collect() }
    }
}

/// network-form key of an observation
#[inline]
pub fn obs_key(o: &Obs) -> GK {
    norm((o.0, o.1))
}
