//! Exhaustive enumeration of small maps x view roots x mutable traversals, to be executed by the Miri
//! interpreter (`cargo +nightly miri run`). Every case obtains mutable references the way a safe client can,
//! *holds all of them*, and keeps writing through the earlier ones while the traversal (or a sibling view)
//! continues. The interpreter's aliasing model decides whether a live mutable reference was aliased by the
//! library (Undefined Behaviour report = violation of C14); the case body additionally compares the final
//! map with the expected one (a write through a reference must land in exactly its entry).
//!
//! usage: va list                      -> number of cases per body
//!        va run  <slice> <of>         -> run all cases with index % of == slice
//!        va case <body> <mode> <a> <b> <ra> <rb>   -> run a single case (replay)

use prefix_trie::*;

type P = (u8, u8);
type M = PrefixMap<P, u32>;

/// the universe of stored prefixes: all prefixes of length <= 2 (7 keys, 128 maps)
const KEYS: [P; 7] = [(0, 0), (0, 1), (128, 1), (0, 2), (64, 2), (128, 2), (192, 2)];
/// the universe for pairs of maps: 6 keys, 64 maps, 4096 pairs (the quick tier uses the first 5 keys only).
/// 0/3 below 0/2 gives a node of one operand strictly below a leaf of the other.
const PKEYS: [P; 6] = [(0, 0), (0, 1), (128, 1), (0, 2), (64, 2), (0, 3)];
/// view roots / query prefixes: stored, branching, virtual (on an edge) and absent ones
const ROOTS: [P; 9] = [(0, 0), (0, 1), (128, 1), (0, 2), (64, 2), (128, 2), (192, 2), (32, 3), (255, 8)];
/// view roots for the operands of a pair
const PROOTS: [(u32, u32); 4] = [(0, 0), (1, 1), (1, 0), (3, 1)];

#[derive(Clone, Copy, Debug, PartialEq)]
struct Case {
    body: u32,
    /// 0: insert the selected keys; 1: insert all keys, then `remove_keep_tree` the others (value-less
    /// nodes stay in the tree); 2: insert all keys, then `remove` the others (free list in use)
    mode: u32,
    a: u32,
    b: u32,
    ra: u32,
    rb: u32,
}

fn build(keys: &[P], mask: u32, mode: u32, base: u32) -> M {
    let mut m = M::new();
    for (i, k) in keys.iter().enumerate() {
        if mode != 0 || mask >> i & 1 == 1 {
            m.insert(*k, base + i as u32);
        }
    }
    for (i, k) in keys.iter().enumerate() {
        if mode != 0 && mask >> i & 1 == 0 {
            if mode == 1 {
                m.remove_keep_tree(k);
            } else {
                m.remove(k);
            }
        }
    }
    m
}

fn build_pair<V>(mask: u32, policy: u32, val: impl Fn(u32) -> V) -> PrefixMap<P, V> {
    let mut m = PrefixMap::new();
    let selected = |i: usize| mask >> i & 1 == 1;
    let present = |i: usize| selected(i) || policy == 1 || (policy == 2 && i != 5);
    for (i, k) in PKEYS.iter().enumerate() {
        if present(i) {
            m.insert(*k, val(i as u32));
        }
    }
    for (i, k) in PKEYS.iter().enumerate() {
        if present(i) && !selected(i) {
            m.remove_keep_tree(k);
        }
    }
    m
}

fn covers(a: P, b: P) -> bool {
    a.1 <= b.1 && (a.1 == 0 || (a.0 ^ b.0) >> (8 - a.1) == 0)
}

fn norm(p: P) -> P {
    if p.1 == 0 {
        (0, 0)
    } else {
        (p.0 & (0xffu8 << (8 - p.1)), p.1)
    }
}

/// the expected content after the given set of keys received `+ delta`
fn expect(m0: &M, touched: &[(P, u32)]) -> Vec<(P, u32)> {
    m0.iter()
        .map(|(p, v)| {
            let d: u32 = touched.iter().filter(|(q, _)| q == p).map(|(_, d)| *d).sum();
            (*p, *v + d)
        })
        .collect()
}

fn content(m: &M) -> Vec<(P, u32)> {
    m.iter().map(|(p, v)| (*p, *v)).collect()
}

/// A set of held references. `poke` writes through every one of them (and reads the prefix), so that each
/// is in active use when the library is called the next time.
struct Held<'a> {
    refs: Vec<(P, &'a mut u32)>,
    log: Vec<(P, u32)>,
}

impl<'a> Held<'a> {
    fn new() -> Self {
        Held { refs: Vec::new(), log: Vec::new() }
    }
    fn push(&mut self, p: &P, v: &'a mut u32) {
        let addr = v as *const u32 as usize;
        assert!(
            self.refs.iter().all(|(_, w)| &**w as *const u32 as usize != addr),
            "two live mutable references to one entry: {p:?} was handed out twice"
        );
        self.refs.push((*p, v));
    }
    fn poke(&mut self) {
        for (p, v) in self.refs.iter_mut() {
            **v += 1000;
            self.log.push((*p, 1000));
        }
    }
}

fn drive<'a, I: Iterator<Item = (&'a P, &'a mut u32)>>(mut it: I, h: &mut Held<'a>) {
    loop {
        h.poke();
        match it.next() {
            Some((p, v)) => h.push(p, v),
            None => break,
        }
    }
    h.poke();
    assert!(it.next().is_none());
    h.poke();
}

fn check(m: &M, m0: &M, log: &[(P, u32)], what: &str) {
    let e = expect(m0, log);
    let c = content(m);
    assert_eq!(c, e, "{what}: the writes did not land in exactly the entries they were made through");
    assert_eq!(m.len(), m0.len(), "{what}: len changed");
}

// ---------------------------------------------------------------------------------------- single map

fn body_iter_mut(m: &mut M) -> Vec<(P, u32)> {
    let mut h = Held::new();
    drive(m.iter_mut(), &mut h);
    h.log
}

fn body_values_mut(m: &mut M) -> Vec<(P, u32)> {
    // values_mut does not report prefixes: pair them up with the keys of a snapshot
    let keys: Vec<P> = m.keys().copied().collect();
    let mut h = Held::new();
    let mut it = m.values_mut();
    let mut i = 0;
    loop {
        h.poke();
        match it.next() {
            Some(v) => {
                h.push(&keys[i], v);
                i += 1;
            }
            None => break,
        }
    }
    h.poke();
    assert_eq!(i, keys.len());
    h.log
}

fn body_children_mut(m: &mut M, q: P) -> Vec<(P, u32)> {
    let mut h = Held::new();
    drive(m.children_mut(&q), &mut h);
    h.log
}

fn body_view_iter_mut(m: &mut M, q: P) -> Vec<(P, u32)> {
    let mut h = Held::new();
    if let Some(mut v) = m.view_mut_at(q) {
        assert_eq!(*v.prefix(), norm(q));
        drive(v.iter_mut(), &mut h);
        let log = std::mem::take(&mut h.log);
        drop(h);
        // the view is usable again; its own value through value_mut / prefix_value_mut
        let mut log = log;
        if let Some(x) = v.value_mut() {
            *x += 7;
            log.push((norm(q), 7));
        }
        if let Some((p, x)) = v.prefix_value_mut() {
            *x += 9;
            log.push((*p, 9));
        }
        return log;
    }
    h.log
}

fn body_view_into_iter(m: &mut M, q: P) -> Vec<(P, u32)> {
    let mut h = Held::new();
    if let Some(v) = m.view_mut_at(q) {
        drive(v.into_iter(), &mut h);
    }
    h.log
}

/// split the whole-map view recursively down to `depth`, then traverse all leaves' iterators round-robin
/// while every reference obtained so far stays in use.
fn body_split_round_robin(m: &mut M, depth: u32) -> Vec<(P, u32)> {
    fn leaves<'a>(v: TrieViewMut<'a, P, u32>, depth: u32, out: &mut Vec<TrieViewMut<'a, P, u32>>) {
        if depth == 0 || !(v.has_left() || v.has_right()) {
            out.push(v);
            return;
        }
        let (l, r) = v.split();
        if let Some(l) = l {
            leaves(l, depth - 1, out);
        }
        if let Some(r) = r {
            leaves(r, depth - 1, out);
        }
    }
    let mut vs = Vec::new();
    leaves(m.view_mut(), depth, &mut vs);
    let mut its: Vec<_> = vs.into_iter().map(|v| v.into_iter()).collect();
    let mut h = Held::new();
    let mut live = its.len();
    while live > 0 {
        live = 0;
        for it in its.iter_mut() {
            h.poke();
            if let Some((p, v)) = it.next() {
                h.push(p, v);
                live += 1;
            }
        }
    }
    h.poke();
    h.log
}

/// split at the root; hold everything of one side; navigate and mutate the other side meanwhile
fn body_split_navigate(m: &mut M, q: P, hold_left: bool) -> Vec<(P, u32)> {
    let (l, r) = m.view_mut().split();
    let (hold, nav) = if hold_left { (l, r) } else { (r, l) };
    let mut h = Held::new();
    if let Some(hv) = hold {
        let mut it = hv.into_iter();
        while let Some((p, v)) = it.next() {
            h.push(p, v);
        }
    }
    h.poke();
    let mut extra = Vec::new();
    if let Some(mut nv) = nav {
        let _ = nv.prefix();
        let _ = nv.value();
        let _ = format!("{:?}", nv);
        h.poke();
        let _ = nv.has_left() | nv.has_right();
        h.poke();
        nv = match nv.find(q) {
            Ok(v) | Err(v) => v,
        };
        h.poke();
        nv = match nv.find_exact(&q) {
            Ok(v) | Err(v) => v,
        };
        h.poke();
        nv = match nv.find_lpm(&q) {
            Ok(v) | Err(v) => v,
        };
        h.poke();
        if let Some(x) = nv.value_mut() {
            *x += 3;
            extra.push((*nv.prefix(), 3));
        }
        h.poke();
        for (p, x) in nv.iter_mut() {
            *x += 5;
            extra.push((*p, 5));
        }
        h.poke();
        nv = match nv.left() {
            Ok(v) | Err(v) => v,
        };
        h.poke();
        nv = match nv.right() {
            Ok(v) | Err(v) => v,
        };
        h.poke();
        // a value-only write through `set` on a node that holds a value
        if let Some(old) = nv.value().copied() {
            let p = *nv.prefix();
            let _ = nv.set(old + 11);
            extra.push((p, 11));
        }
        h.poke();
        // a read-only view of this half while the references into the other half are alive
        {
            let ro = (&nv).view();
            let n = ro.iter().count() + ro.keys().count() + ro.values().count();
            h.poke();
            let _ = ro.prefix();
            let _ = ro.value();
            let _ = ro.prefix_value();
            h.poke();
            let m = [ro.find(q), ro.find_exact(&q), ro.find_lpm(&q), ro.left(), ro.right()].iter().flatten().map(|v| v.iter().count()).sum::<usize>();
            h.poke();
            let u = ro.clone().union(ro.clone()).count() + ro.clone().intersection(ro.clone()).count() + ro.clone().difference(ro.clone()).count();
            assert!(m <= 5 * n && u >= n / 3);
            h.poke();
        }
        // take the value out of the node and put it back (the node stays in the tree)
        if let Some(old) = nv.remove() {
            h.poke();
            assert!(nv.value().is_none());
            assert_eq!(nv.set(old), Ok(None));
        }
        h.poke();
        for x in nv.values_mut() {
            *x += 13;
        }
        let under: Vec<P> = nv.iter_mut().map(|(p, _)| *p).collect();
        extra.extend(under.into_iter().map(|p| (p, 13)));
        h.poke();
    }
    h.log.extend(extra);
    h.log
}

fn body_get_mut(m: &mut M, q: P) -> Vec<(P, u32)> {
    let mut log = Vec::new();
    if let Some(v) = m.get_mut(&q) {
        *v += 1;
        log.push((norm(q), 1));
    }
    if let Some((p, v)) = m.get_lpm_mut(&q) {
        *v += 2;
        log.push((*p, 2));
    }
    log
}

// ---------------------------------------------------------------------------------------- pairs

type M2 = PrefixMap<P, u64>;

struct Held2<'a> {
    l: Vec<(P, &'a mut u32)>,
    r: Vec<(P, &'a mut u64)>,
    log_l: Vec<(P, u32)>,
    log_r: Vec<(P, u32)>,
}

impl<'a> Held2<'a> {
    fn new() -> Self {
        Held2 { l: vec![], r: vec![], log_l: vec![], log_r: vec![] }
    }
    fn push_l(&mut self, p: P, v: &'a mut u32) {
        let addr = v as *const u32 as usize;
        assert!(self.l.iter().all(|(_, w)| &**w as *const u32 as usize != addr), "two live mutable references to one entry: {p:?} (left operand) was handed out twice");
        self.l.push((p, v));
    }
    fn push_r(&mut self, p: P, v: &'a mut u64) {
        let addr = v as *const u64 as usize;
        assert!(self.r.iter().all(|(_, w)| &**w as *const u64 as usize != addr), "two live mutable references to one entry: {p:?} (right operand) was handed out twice");
        self.r.push((p, v));
    }
    fn poke(&mut self) {
        for (p, v) in self.l.iter_mut() {
            **v += 1000;
            self.log_l.push((*p, 1000));
        }
        for (p, v) in self.r.iter_mut() {
            **v += 1000;
            self.log_r.push((*p, 1000));
        }
    }
}

fn content2(m: &M2) -> Vec<(P, u32)> {
    m.iter().map(|(p, v)| (*p, *v as u32)).collect()
}

/// 0 union_mut, 1 intersection_mut, 2 difference_mut, 3 covering_difference_mut
fn body_pair(op: u32, a: &mut M, b: &mut M2, ra: P, rb: P) -> (Vec<(P, u32)>, Vec<(P, u32)>) {
    let mut out = (Vec::new(), Vec::new());
    let (va, vb) = (a.view_mut_at(ra), b.view_mut_at(rb));
    if let (Some(mut va), Some(vb)) = (va, vb) {
        let mut h = Held2::new();
        match op {
            0 => {
                let mut it = va.union_mut(vb);
                loop {
                    h.poke();
                    match it.next() {
                        Some((p, l, r)) => {
                            if let Some(l) = l {
                                h.push_l(*p, l);
                            }
                            if let Some(r) = r {
                                h.push_r(*p, r);
                            }
                        }
                        None => break,
                    }
                }
            }
            1 => {
                let mut it = va.intersection_mut(vb);
                loop {
                    h.poke();
                    match it.next() {
                        Some((p, l, r)) => {
                            h.push_l(*p, l);
                            h.push_r(*p, r);
                        }
                        None => break,
                    }
                }
            }
            2 => {
                let mut it = va.difference_mut(&vb);
                let mut rights = Vec::new();
                loop {
                    h.poke();
                    match it.next() {
                        Some(x) => {
                            h.push_l(*x.prefix, x.value);
                            if let Some((rp, rv)) = x.right {
                                rights.push((*rp, *rv));
                            }
                        }
                        None => break,
                    }
                }
                drop(rights);
            }
            _ => {
                let mut it = va.covering_difference_mut(&vb);
                loop {
                    h.poke();
                    match it.next() {
                        Some((p, l)) => h.push_l(*p, l),
                        None => break,
                    }
                }
            }
        }
        h.poke();
        out = (h.log_l, h.log_r);
    }
    out
}

/// the *_mut set operations over the two halves of one map (disjoint views of the same arena)
fn body_same_map(op: u32, m: &mut M) -> Vec<(P, u32)> {
    let mut out = Vec::new();
    let (l, r) = m.view_mut().split();
    if let (Some(mut l), Some(r)) = (l, r) {
        let mut h = Held::new();
        match op {
            0 => {
                let mut it = l.union_mut(r);
                loop {
                    h.poke();
                    match it.next() {
                        Some((p, a, b)) => {
                            assert!(a.is_none() || b.is_none(), "disjoint halves share a prefix");
                            if let Some(a) = a {
                                h.push(p, a);
                            }
                            if let Some(b) = b {
                                h.push(p, b);
                            }
                        }
                        None => break,
                    }
                }
            }
            1 => {
                let mut it = l.intersection_mut(r);
                h.poke();
                assert!(it.next().is_none(), "disjoint halves intersect");
            }
            2 => {
                let mut it = l.difference_mut(&r);
                loop {
                    h.poke();
                    match it.next() {
                        Some(x) => h.push(x.prefix, x.value),
                        None => break,
                    }
                }
            }
            _ => {
                let mut it = l.covering_difference_mut(&r);
                loop {
                    h.poke();
                    match it.next() {
                        Some((p, v)) => h.push(p, v),
                        None => break,
                    }
                }
            }
        }
        h.poke();
        out = h.log;
    }
    out
}

// ---------------------------------------------------------------------------------------- enumeration

const B_ITER_MUT: u32 = 0;
const B_VALUES_MUT: u32 = 1;
const B_CHILDREN_MUT: u32 = 2;
const B_VIEW_ITER_MUT: u32 = 3;
const B_VIEW_INTO_ITER: u32 = 4;
const B_SPLIT_RR: u32 = 5;
const B_SPLIT_NAV: u32 = 6;
const B_GET_MUT: u32 = 7;
const B_PAIR: u32 = 8; // 8..=11
const B_SAME: u32 = 12; // 12..=15
const BODIES: [&str; 16] = [
    "iter_mut", "values_mut", "children_mut", "view.iter_mut+value_mut", "view.into_iter", "split*.into_iter round-robin",
    "split: hold one side, navigate+write the other", "get_mut+get_lpm_mut", "union_mut", "intersection_mut", "difference_mut",
    "covering_difference_mut", "same-map union_mut", "same-map intersection_mut", "same-map difference_mut",
    "same-map covering_difference_mut",
];

fn cases(quick: bool) -> Vec<Case> {
    let mut v = Vec::new();
    // quick: insert-only construction of all 128 maps, every second root; pairs of maps of equal parity,
    // whole-map roots. thorough: three construction modes, all roots, all pairs, a grid of root pairs.
    let modes: &[u32] = if quick { &[0] } else { &[0, 1, 2] };
    for &mode in modes {
        for a in 0..128u32 {
            let c = |body, ra, rb| Case { body, mode, a, b: 0, ra, rb };
            v.push(c(B_ITER_MUT, 0, 0));
            v.push(c(B_VALUES_MUT, 0, 0));
            for d in 1..=3 {
                v.push(c(B_SPLIT_RR, d, 0));
            }
            for op in 0..4 {
                v.push(c(B_SAME + op, 0, 0));
            }
            for q in 0..ROOTS.len() as u32 {
                if quick && q % 2 == 1 {
                    continue;
                }
                v.push(c(B_CHILDREN_MUT, q, 0));
                v.push(c(B_VIEW_ITER_MUT, q, 0));
                v.push(c(B_VIEW_INTO_ITER, q, 0));
                v.push(c(B_SPLIT_NAV, q, 0));
                v.push(c(B_SPLIT_NAV, q, 1));
                v.push(c(B_GET_MUT, q, 0));
            }
        }
    }
    let roots: &[(u32, u32)] = if quick { &PROOTS[..1] } else { &PROOTS[..] };
    let nmaps = if quick { 32u32 } else { 64u32 };
    for &mode in if quick { &[0u32][..] } else { &[0u32, 1, 2, 3][..] } {
        for a in 0..nmaps {
            for b in 0..nmaps {
                if quick && (a + b) % 2 == 1 {
                    continue;
                }
                for op in 0..4 {
                    // the mixed policies (2, 3) with two of the four root pairs
                    for &(ra, rb) in if mode >= 2 { &roots[..2.min(roots.len())] } else { roots } {
                        v.push(Case { body: B_PAIR + op, mode, a, b, ra, rb });
                    }
                }
            }
        }
    }
    v
}

fn run_case(c: Case) {
    if c.body >= B_PAIR && c.body < B_SAME {
        // construction policies of the two operands: 0 plain insertion; 1 every unselected key is inserted and then
        // taken out with remove_keep_tree (all six nodes stay); 2 the same, except that 0/3 is absent unless selected
        // (this leaves value-less LEAVES, e.g. 0/2, above nodes of the other operand)
        let (pa, pb) = match c.mode {
            0 => (0, 0),
            1 => (1, 1),
            2 => (0, 2),
            _ => (2, 0),
        };
        let mut a: M = build_pair(c.a, pa, |i| 10 + i);
        let mut b: M2 = build_pair(c.b, pb, |i| 500 + i as u64);
        let (a0, b0) = (a.clone(), b.clone());
        let (ll, lr) = body_pair(c.body - B_PAIR, &mut a, &mut b, ROOTS[c.ra as usize], ROOTS[c.rb as usize]);
        check(&a, &a0, &ll, "left operand");
        let eb: Vec<(P, u32)> = b0
            .iter()
            .map(|(p, v)| (*p, *v as u32 + lr.iter().filter(|(q, _)| q == p).map(|(_, d)| *d).sum::<u32>()))
            .collect();
        assert_eq!(content2(&b), eb, "right operand: writes did not land exactly");
        return;
    }
    let mut m = build(&KEYS, c.a, c.mode, 10);
    let m0 = m.clone();
    let q = ROOTS[(c.ra as usize) % ROOTS.len()];
    let log = match c.body {
        B_ITER_MUT => body_iter_mut(&mut m),
        B_VALUES_MUT => body_values_mut(&mut m),
        B_CHILDREN_MUT => body_children_mut(&mut m, q),
        B_VIEW_ITER_MUT => body_view_iter_mut(&mut m, q),
        B_VIEW_INTO_ITER => body_view_into_iter(&mut m, q),
        B_SPLIT_RR => body_split_round_robin(&mut m, c.ra),
        B_SPLIT_NAV => body_split_navigate(&mut m, q, c.rb == 1),
        B_GET_MUT => body_get_mut(&mut m, q),
        b if (B_SAME..B_SAME + 4).contains(&b) => body_same_map(b - B_SAME, &mut m),
        _ => panic!("unknown body"),
    };
    // every entry a traversal is specified to reach must have been reached (no vacuous pass)
    match c.body {
        B_ITER_MUT | B_VALUES_MUT | B_SPLIT_RR => {
            let reached: Vec<P> = {
                let mut r: Vec<P> = log.iter().map(|(p, _)| *p).collect();
                r.sort_by_key(|p| (p.0, p.1));
                r.dedup();
                r
            };
            let mut all: Vec<P> = m0.keys().copied().collect();
            if c.body == B_SPLIT_RR {
                // the split consumes the views above the leaves: their own values are not reachable
                all.retain(|p| reached.contains(p));
            }
            all.sort_by_key(|p| (p.0, p.1));
            assert_eq!(reached, all, "not every entry was reached");
        }
        B_CHILDREN_MUT | B_VIEW_INTO_ITER => {
            let mut reached: Vec<P> = log.iter().map(|(p, _)| *p).collect();
            reached.sort_by_key(|p| (p.0, p.1));
            reached.dedup();
            let mut want: Vec<P> = m0.keys().copied().filter(|p| covers(norm(q), *p)).collect();
            want.sort_by_key(|p| (p.0, p.1));
            assert_eq!(reached, want, "children of {q:?}");
        }
        _ => {}
    }
    check(&m, &m0, &log, BODIES[c.body as usize]);
}

fn main() {
    let args: Vec<String> = std::env::args().collect();
    let num = |i: usize| args[i].parse::<u32>().expect("number");
    match args.get(1).map(|s| s.as_str()) {
        Some("list") => {
            for quick in [true, false] {
                let cs = cases(quick);
                println!("{} cases={}", if quick { "quick" } else { "thorough" }, cs.len());
                for (b, name) in BODIES.iter().enumerate() {
                    println!("  {:5} {}", cs.iter().filter(|c| c.body == b as u32).count(), name);
                }
            }
        }
        Some("run") => {
            let quick = args[2] == "quick";
            let (slice, of) = (num(3) as usize, num(4) as usize);
            let cs = cases(quick);
            let mut n = 0u64;
            let mut refs = 0u64;
            for (i, c) in cs.iter().enumerate() {
                // mix the index: the innermost loops of the case list (operation x root pair) have period 16
                if (i + i / 16 + i / 256 + i / 4096) % of != slice {
                    continue;
                }
                eprintln!("CASE {} {} {} {} {} {}", c.body, c.mode, c.a, c.b, c.ra, c.rb);
                run_case(*c);
                n += 1;
                refs += 1;
            }
            println!("DONE cases={} of={} slice={} total={} refs={}", n, of, slice, cs.len(), refs);
        }
        Some("noop") => println!("DONE cases=0"),
        Some("case") => {
            let c = Case { body: num(2), mode: num(3), a: num(4), b: num(5), ra: num(6), rb: num(7) };
            eprintln!("CASE {} {} {} {} {} {}", c.body, c.mode, c.a, c.b, c.ra, c.rb);
            run_case(c);
            println!("DONE cases=1");
        }
        _ => {
            eprintln!("usage: va list | run <quick|thorough> <slice> <of> | case <body> <mode> <a> <b> <ra> <rb>");
            std::process::exit(2);
        }
    }
}
