//! The mutator alphabet of `PrefixMap<P, u32>` and its effect on the reference model.
//!
//! `apply` executes one operation on the real map and on the model, compares everything the call
//! returns with what the model returns, and reports violations. It does not look at the state
//! after the call; that is `explore::post_check`.

use prefix_trie::map::Entry;
use prefix_trie::{AsViewMut, PrefixMap, TrieViewMut};

use crate::arena::Walk;
use crate::expect;
use crate::model::{bit, covers, norm, Model, Obs};
use crate::ptypes::{PType, GK};
use crate::universe::{with_rep, Universe};
use crate::viol::Viol;

#[derive(Clone, Copy, Debug, PartialEq, Eq, Hash, PartialOrd, Ord)]
#[repr(u8)]
pub enum K {
    Insert,
    EntryInsert,
    EntryOrInsert,
    EntryOrInsertWith,
    EntryOrDefault,
    EntryAndModifyOrInsert,
    /// match on the entry; arg selects the method used on either arm
    EntryMatch,
    Remove,
    RemoveKeepTree,
    RemoveChildren,
    Clear,
    /// arg = bit mask over key ids of the entries to keep
    Retain,
    GetMutWrite,
    GetLpmMutWrite,
    IterMutWrite,
    ValuesMutWrite,
    ChildrenMutWrite,
    /// arg = navigation
    ViewSet,
    ViewRemove,
    /// arg = accessor (0 value_mut, 1 prefix_value_mut, 2 iter_mut, 3 values_mut, 4 into_iter)
    ViewWrite,
    CloneSelf,
    Recollect,
    IntoChildrenCollect,
    /// `FromIterator` over the reversed entry list (insertion-order independence)
    RecollectRev,
    /// `FromIterator` over a sequence in which every key occurs twice (second time with another
    /// value and the other representation): the last occurrence wins
    FromIterDup,
    /// `FromIterator` over a long sequence (every key six times, interleaved, not sorted by
    /// length, alternating representations): the last occurrence of every key wins
    FromIterBig,
    /// `dst.clone_from(&map)` where `dst` is a map that has released slots; `dst` replaces the map
    CloneFrom,
}

#[derive(Clone, Copy, Debug, PartialEq, Eq, Hash, PartialOrd, Ord)]
pub struct Op {
    pub kind: K,
    /// index into `uni.keys` (unused: 0)
    pub key: u8,
    /// representation of the key argument
    pub rep: u8,
    pub arg: u32,
}

pub const ALL_KINDS: [K; 27] = [
    K::Insert,
    K::EntryInsert,
    K::EntryOrInsert,
    K::EntryOrInsertWith,
    K::EntryOrDefault,
    K::EntryAndModifyOrInsert,
    K::EntryMatch,
    K::Remove,
    K::RemoveKeepTree,
    K::RemoveChildren,
    K::Clear,
    K::Retain,
    K::GetMutWrite,
    K::GetLpmMutWrite,
    K::IterMutWrite,
    K::ValuesMutWrite,
    K::ChildrenMutWrite,
    K::ViewSet,
    K::ViewRemove,
    K::ViewWrite,
    K::CloneSelf,
    K::Recollect,
    K::IntoChildrenCollect,
    K::RecollectRev,
    K::FromIterDup,
    K::FromIterBig,
    K::CloneFrom,
];

pub fn kind_from_name(name: &str) -> Option<K> {
    ALL_KINDS.iter().copied().find(|k| format!("{:?}", k) == name)
}

impl Op {
    /// operations that must not change the tree shape nor the set of stored prefixes
    pub fn value_only(&self) -> bool {
        matches!(
            self.kind,
            K::GetMutWrite | K::GetLpmMutWrite | K::IterMutWrite | K::ValuesMutWrite | K::ChildrenMutWrite | K::ViewWrite
        )
    }
    /// operations that must not change the tree shape (but may add / drop a value)
    pub fn shape_preserving(&self) -> bool {
        self.value_only() || matches!(self.kind, K::RemoveKeepTree | K::ViewSet | K::ViewRemove)
    }
    pub fn describe(&self, uni: &Universe) -> String {
        let k = uni.keys.get(self.key as usize).copied().unwrap_or((0, 0));
        let k = with_rep(k, self.rep, uni.width);
        format!("{:?}({:#x}/{}, arg={})", self.kind, k.0 >> (128 - uni.width as u32).min(127), k.1, self.arg)
    }
}

pub const NAV_NAMES: [&str; 9] = ["view_mut_at", "view_mut().find", "view_mut().find_exact", "view_mut().find_lpm", "view_mut_at+left", "view_mut_at+right", "view_mut_at+split.0", "view_mut_at+split.1", "view_mut_at(anchor)+find_exact"];

pub struct Cx<'a> {
    pub uni: &'a Universe,
    /// the exploration uses the canonical sub-alphabet only (insert / remove / retain / clear / collect)
    pub canonical: bool,
    /// thorough tier: more expensive variants of the observers
    pub deep: bool,
    /// `find` observer: also walk the sides of every view returned by `TrieViewMut::find`
    pub deep_find_sides: bool,
}

pub fn obs<P: PType>(p: &P, v: &u32) -> Obs {
    let r = p.raw();
    (r.0, r.1, *v)
}

pub fn mkp<P: PType>(k: GK) -> P {
    P::mk(k.0, k.1)
}

/// cap for any iteration: more items than slots means a cyclic structure
pub fn cap(map_len_hint: usize) -> usize {
    map_len_hint + 70
}

pub fn collect_iter<P: PType>(map: &PrefixMap<P, u32>) -> Vec<Obs> {
    map.iter().take(cap(map.len())).map(|(p, v)| obs(p, v)).collect()
}

/// Where is the node (if any) for network key `k` in the walk?
fn node_at(w: &Walk, k: GK) -> Option<usize> {
    w.nodes.iter().position(|n| n.key == k)
}

/// the top-most node strictly below position `k` on side `right` (shape oracle from the hook)
pub fn expected_child(w: &Walk, k: GK, right: bool) -> Option<GK> {
    if let Some(i) = node_at(w, k) {
        let c = if right { w.nodes[i].right } else { w.nodes[i].left };
        c.and_then(|s| w.nodes.iter().find(|n| n.slot == s)).map(|n| n.key)
    } else {
        // virtual: the top-most node covered by k
        let below = w.nodes.iter().filter(|n| covers(k, n.key) && n.key != k).min_by_key(|n| n.key.1)?;
        if bit(below.key, k.1) == right {
            Some(below.key)
        } else {
            None
        }
    }
}

/// the top-most node covered by `k` (including a node at `k` itself)
pub fn top_node_under(w: &Walk, k: GK) -> Option<GK> {
    w.nodes.iter().filter(|n| covers(k, n.key)).min_by_key(|n| n.key.1).map(|n| n.key)
}

/// Navigate to a mutable view. Returns the view (if any) and the network key at which the model
/// expects it to be positioned (None = the model expects no view).
fn nav_view<'a, P: PType>(
    map: &'a mut PrefixMap<P, u32>,
    model: &Model,
    w: &Walk,
    k: GK,
    nav: u32,
    out: &mut Vec<Viol>,
    uni_keys: &[GK],
) -> (Option<TrieViewMut<'a, P, u32>>, Option<GK>) {
    let uni_width = P::WIDTH;
    let p: P = mkp(k);
    let nk = norm(k);
    let site = NAV_NAMES[(nav as usize).min(8)];
    let exists_under = top_node_under(w, nk).is_some();
    let (v, want): (Option<TrieViewMut<'a, P, u32>>, Option<GK>) = match nav {
        0 => (map.view_mut_at(p), exists_under.then_some(nk)),
        1 => (map.view_mut().find(p).ok(), exists_under.then_some(nk)),
        2 => (map.view_mut().find_exact(&p).ok(), model.get(nk).map(|_| nk)),
        3 => (map.view_mut().find_lpm(&p).ok(), model.lpm(nk).map(|o| norm((o.0, o.1)))),
        4..=7 => {
            let right = nav == 5 || nav == 7;
            let want = if exists_under { expected_child(w, nk, right) } else { None };
            let v = map.view_mut_at(p).and_then(|v| match nav {
                4 => v.left().ok(),
                5 => v.right().ok(),
                6 => v.split().0,
                _ => v.split().1,
            });
            (v, want)
        }
        _ => {
            // two-step navigation: a mutable view at another key of the universe (the anchor), then
            // find_exact for the target from there; it succeeds iff the target is stored inside the anchor view
            let anchor = uni_keys[(nav as usize - 8) % uni_keys.len()];
            let v = map.view_mut_at(mkp::<P>(anchor)).and_then(|v| v.find_exact(&p).ok());
            let want = (top_node_under(w, anchor).is_some() && covers(anchor, nk) && model.get(nk).is_some()).then_some(nk);
            (v, want)
        }
    };
    if nav >= 8 {
        match (&v, want) {
            (None, None) => {}
            (Some(v), Some(wk)) => {
                let got = norm(v.prefix().raw());
                expect!(out, got == wk, "C12", "view_mut_at+find_exact", "view-at-wrong-position", "target {:x?}: view positioned at {:x?}", k, got);
            }
            (None, Some(_)) => out.push(Viol::new("C12", "view_mut_at+find_exact", "view-missing", format!("target {:x?} is stored inside the anchor view but was not found", k))),
            (Some(v), None) => out.push(Viol::new("C12", "view_mut_at+find_exact", "view-unexpected", format!("target {:x?}: found a view at {:x?} although the target is not stored inside the anchor view", k, v.prefix().raw()))),
        }
        return (v, want);
    }
    let prop = if nav == 0 || nav >= 4 { "C11" } else { "C12" };
    // the entries that the expected view has to address (sides: judged on entries, not on position,
    // because the property does not prescribe where a side view is positioned)
    let side: Option<GK> = if nav >= 4 {
        let right = nav == 5 || nav == 7;
        if nk.1 < uni_width {
            let b = if right { 1u128 << (127 - nk.1 as u32) } else { 0 };
            Some((nk.0 | b, nk.1 + 1))
        } else {
            None
        }
    } else {
        None
    };
    match (&v, want) {
        (None, None) => {}
        (Some(v), Some(wk)) => {
            let got = norm(v.prefix().raw());
            if nav >= 4 {
                let ok = side.map(|s| covers(s, got) && model.under(s) == model.under(got)).unwrap_or(false);
                expect!(out, ok, prop, site, "view-at-wrong-position", "query {:x?}: side view positioned at {:x?} does not address the entries of that side", k, got);
            } else {
                expect!(out, got == wk, prop, site, "view-at-wrong-position", "query {:x?}: view positioned at {:x?}, expected {:x?}", k, got, wk);
            }
        }
        (None, Some(wk)) => {
            // None is a violation only if the model has entries that the view would have to address
            let has_entries = match nav {
                0 | 1 => !model.under(nk).is_empty(),
                2 | 3 => true,
                _ => side.map(|s| !model.under(s).is_empty()).unwrap_or(false),
            };
            if has_entries {
                out.push(Viol::new(prop, site, "view-missing", format!("query {:x?}: no view, expected one at {:x?}", k, wk)));
            }
        }
        (Some(v), None) => {
            let got = norm(v.prefix().raw());
            // a view where the arena has no node: a violation unless it is an (empty) view on the right side
            let harmless = nav >= 4 && side.map(|s| covers(s, got) && model.under(got).is_empty()).unwrap_or(false);
            if !harmless {
                out.push(Viol::new(prop, site, "view-unexpected", format!("query {:x?}: got a view at {:x?}, expected none", k, v.prefix().raw())));
            }
        }
    }
    (v, want)
}

/// Apply `op`. `w` is the walk of the state *before* the operation (shape oracle for views).
pub fn apply<P: PType>(map: &mut PrefixMap<P, u32>, model: &mut Model, w: &Walk, op: Op, tok: u32, cx: &Cx) -> Vec<Viol> {
    let mut out: Vec<Viol> = vec![];
    let uni = cx.uni;
    let k: GK = with_rep(uni.keys[op.key as usize], op.rep, uni.width);
    let nk = norm(k);
    let p: P = mkp(k);
    // what a type that cannot keep host bits will store
    let stored_k: GK = if P::KEEPS_HOST { k } else { nk };
    match op.kind {
        K::Insert => {
            let got = map.insert(p, tok);
            let want = model.insert(stored_k, tok);
            expect!(out, got == want, "C01", "PrefixMap::insert", "return-value", "insert({:x?}) returned {:?}, model {:?}", k, got, want);
        }
        K::EntryInsert => {
            let got = map.entry(p).insert(tok);
            let want = model.insert(stored_k, tok);
            expect!(out, got == want, "C01", "Entry::insert", "return-value", "entry({:x?}).insert returned {:?}, model {:?}", k, got, want);
        }
        K::EntryOrInsert | K::EntryOrInsertWith | K::EntryOrDefault => {
            let was = model.get(nk).map(|e| e.val);
            let mut calls = 0;
            let fresh = if op.kind == K::EntryOrDefault { 0 } else { tok };
            let site = match op.kind {
                K::EntryOrInsert => "Entry::or_insert",
                K::EntryOrInsertWith => "Entry::or_insert_with",
                _ => "Entry::or_default",
            };
            let r: &mut u32 = match op.kind {
                K::EntryOrInsert => map.entry(p).or_insert(tok),
                K::EntryOrInsertWith => map.entry(p).or_insert_with(|| {
                    calls += 1;
                    tok
                }),
                _ => map.entry(p).or_default(),
            };
            let want = was.unwrap_or(fresh);
            expect!(out, *r == want, "C01", site, "resident-value", "{site}({:x?}) -> {} but resident value is {}", k, *r, want);
            // write through the returned reference
            *r = tok + 1;
            if was.is_none() {
                model.insert(stored_k, tok + 1);
            } else {
                model.set_val(nk, tok + 1);
            }
            if op.kind == K::EntryOrInsertWith {
                expect!(out, calls == was.is_none() as u32, "C01", site, "closure-call-count", "closure called {} times, entry present before: {}", calls, was.is_some());
            }
        }
        K::EntryAndModifyOrInsert => {
            let was = model.get(nk).map(|e| e.val);
            let mut seen = None;
            let r = map
                .entry(p)
                .and_modify(|x| {
                    seen = Some(*x);
                    *x = tok;
                })
                .or_insert(tok + 1);
            let got = *r;
            expect!(out, seen == was, "C01", "Entry::and_modify", "closure-argument", "and_modify saw {:?}, model {:?}", seen, was);
            let want = if was.is_some() { tok } else { tok + 1 };
            expect!(out, got == want, "C01", "Entry::and_modify+or_insert", "resident-value", "got {} want {}", got, want);
            if was.is_some() {
                model.set_val(nk, tok);
            } else {
                model.insert(stored_k, tok + 1);
            }
        }
        K::EntryMatch => {
            let was = model.obs_of(nk);
            let mut e = map.entry(p);
            // top level accessors
            let g = e.get().copied();
            expect!(out, g == was.map(|o| o.2), "C01", "Entry::get", "value", "Entry::get {:?} model {:?}", g, was);
            let gm = e.get_mut().map(|x| *x);
            expect!(out, gm == was.map(|o| o.2), "C01", "Entry::get_mut", "value", "Entry::get_mut {:?} model {:?}", gm, was);
            let key_raw = e.key().raw();
            match was {
                Some(o) => expect!(out, key_raw == (o.0, o.1), "C18", "Entry::key", "occupied-key-is-stored-repr", "Entry::key {:x?}, stored {:x?}", key_raw, (o.0, o.1)),
                None => expect!(out, key_raw == stored_k, "C01", "Entry::key", "vacant-key-is-argument", "Entry::key {:x?}, argument {:x?}", key_raw, stored_k),
            }
            match e {
                Entry::Vacant(v) => {
                    expect!(out, was.is_none(), "C01", "PrefixMap::entry", "vacant-but-present", "entry({:x?}) is Vacant but model has {:?}", k, was);
                    expect!(out, v.key().raw() == stored_k, "C01", "VacantEntry::key", "key-is-argument", "{:x?} vs {:x?}", v.key().raw(), stored_k);
                    let (r, want): (&mut u32, u32) = match op.arg {
                        0 => (v.insert(tok), tok),
                        1 => (v.insert_with(|| tok), tok),
                        _ => (v.default(), 0),
                    };
                    expect!(out, *r == want, "C01", "VacantEntry::insert*", "resident-value", "got {} want {}", *r, want);
                    *r = tok + 1;
                    if was.is_none() {
                        model.insert(stored_k, tok + 1);
                    } else {
                        // already reported above; keep the model aligned with the abstract map
                        model.set_val(nk, tok + 1);
                    }
                }
                Entry::Occupied(mut o) => {
                    expect!(out, was.is_some(), "C01", "PrefixMap::entry", "occupied-but-absent", "entry({:x?}) is Occupied but model has nothing", k);
                    if let Some(wo) = was {
                        expect!(out, o.key().raw() == (wo.0, wo.1), "C18", "OccupiedEntry::key", "key-is-stored-repr", "{:x?} vs stored {:x?}", o.key().raw(), (wo.0, wo.1));
                        expect!(out, *o.get() == wo.2, "C01", "OccupiedEntry::get", "value", "{} vs {}", *o.get(), wo.2);
                        expect!(out, *o.get_mut() == wo.2, "C01", "OccupiedEntry::get_mut", "value", "{} vs {}", *o.get_mut(), wo.2);
                    }
                    match op.arg {
                        0 => {
                            let old = o.insert(tok);
                            let want = model.insert(stored_k, tok);
                            expect!(out, Some(old) == want, "C01", "OccupiedEntry::insert", "return-value", "{:?} vs {:?}", old, want);
                        }
                        1 => {
                            let old = o.remove();
                            let want = model.remove(nk);
                            expect!(out, Some(old) == want, "C01", "OccupiedEntry::remove", "return-value", "{:?} vs {:?}", old, want);
                        }
                        _ => {
                            *o.get_mut() = tok;
                            if was.is_some() {
                                model.set_val(nk, tok);
                            }
                        }
                    }
                }
            }
        }
        K::Remove => {
            let got = map.remove(&p);
            let want = model.remove(nk);
            expect!(out, got == want, "C01", "PrefixMap::remove", "return-value", "remove({:x?}) returned {:?}, model {:?}", k, got, want);
        }
        K::RemoveKeepTree => {
            let got = map.remove_keep_tree(&p);
            let want = model.remove(nk);
            expect!(out, got == want, "C01", "PrefixMap::remove_keep_tree", "return-value", "remove_keep_tree({:x?}) returned {:?}, model {:?}", k, got, want);
        }
        K::RemoveChildren => {
            map.remove_children(&p);
            for key in model.keys() {
                if covers(nk, key) {
                    model.remove(key);
                }
            }
        }
        K::Clear => {
            map.clear();
            model.clear();
        }
        K::Retain => {
            let before = model.entries();
            let mut calls: Vec<Obs> = vec![];
            let keep = |o: &Obs| -> bool { uni.key_id(norm((o.0, o.1))).map(|id| op.arg.checked_shr(id as u32).map(|x| x & 1 == 1).unwrap_or(false)).unwrap_or(true) };
            map.retain(|p, v| {
                let o = obs(p, v);
                calls.push(o);
                keep(&o)
            });
            let mut sorted = calls.clone();
            sorted.sort_by_key(|o| norm((o.0, o.1)));
            expect!(out, sorted == before, "C10", "PrefixMap::retain", "predicate-once-per-entry", "predicate calls {:x?}, stored entries {:x?}", calls, before);
            for o in &before {
                if !keep(o) {
                    model.remove((o.0, o.1));
                }
            }
        }
        K::GetMutWrite => {
            let want = model.get(nk).map(|e| e.val);
            let ro = map.get(&p).copied();
            let got = map.get_mut(&p);
            expect!(out, got.as_deref().copied() == want, "C01", "PrefixMap::get_mut", "value", "get_mut({:x?}) -> {:?}, model {:?}", k, got, want);
            expect!(out, got.as_deref().copied() == ro, "C13", "PrefixMap::get_mut", "differs-from-read-only-lookup", "get_mut({:x?}) -> {:?}, get -> {:?}", k, got, ro);
            if let Some(r) = got {
                *r = tok;
                if want.is_some() {
                    model.set_val(nk, tok);
                }
            }
        }
        K::GetLpmMutWrite => {
            let want = model.lpm(nk);
            let ro = map.get_lpm(&p).map(|(p, v)| obs(p, v));
            let got = map.get_lpm_mut(&p);
            let got_o = got.as_ref().map(|(p, v)| obs(*p, v));
            expect!(out, got_o == want, "C02", "PrefixMap::get_lpm_mut", "lpm", "get_lpm_mut({:x?}) -> {:x?}, model {:x?}", k, got_o, want);
            expect!(out, got_o == ro, "C13", "PrefixMap::get_lpm_mut", "differs-from-read-only-lookup", "get_lpm_mut({:x?}) -> {:x?}, get_lpm -> {:x?}", k, got_o, ro);
            if let Some((_, r)) = got {
                *r = tok;
                if let Some(o) = got_o {
                    if model.get((o.0, o.1)).is_some() {
                        model.set_val((o.0, o.1), tok);
                    }
                }
            }
        }
        K::IterMutWrite | K::ValuesMutWrite | K::ChildrenMutWrite => {
            let want: Vec<Obs> = if op.kind == K::ChildrenMutWrite { model.under(nk) } else { model.entries() };
            let limit = cap(want.len());
            let site = match op.kind {
                K::IterMutWrite => "PrefixMap::iter_mut",
                K::ValuesMutWrite => "PrefixMap::values_mut",
                _ => "PrefixMap::children_mut",
            };
            // hold all references at once
            let mut held: Vec<(Option<GK>, &mut u32)> = match op.kind {
                K::IterMutWrite => map.iter_mut().take(limit).map(|(p, v)| (Some(p.raw()), v)).collect(),
                K::ValuesMutWrite => map.values_mut().take(limit).map(|v| (None, v)).collect(),
                _ => map.children_mut(&p).take(limit).map(|(p, v)| (Some(p.raw()), v)).collect(),
            };
            let got: Vec<(Option<GK>, u32)> = held.iter().map(|(p, v)| (*p, **v)).collect();
            let want_cmp: Vec<(Option<GK>, u32)> = want.iter().map(|o| (if op.kind == K::ValuesMutWrite { None } else { Some((o.0, o.1)) }, o.2)).collect();
            expect!(out, got == want_cmp, "C13", site, "yield-sequence", "{site} yielded {:x?}, read-only order {:x?}", got, want_cmp);
            // aliasing: addresses pairwise distinct
            let mut addrs: Vec<usize> = held.iter().map(|(_, v)| *v as *const u32 as usize).collect();
            addrs.sort();
            addrs.dedup();
            expect!(out, addrs.len() == held.len(), "C14", site, "aliasing-mutable-references", "{} references, {} distinct addresses", held.len(), addrs.len());
            for (i, (_, v)) in held.iter_mut().enumerate() {
                **v = tok + i as u32;
            }
            drop(held);
            if got == want_cmp {
                for (i, o) in want.iter().enumerate() {
                    model.set_val((o.0, o.1), tok + i as u32);
                }
            }
        }
        K::ViewSet | K::ViewRemove => {
            let nav = op.arg;
            let (v, want) = nav_view(map, model, w, k, nav, &mut out, &uni.keys);
            if let Some(mut v) = v {
                if want.is_none() {
                    // the abstract map has no such view: in the abstract history nothing is written.
                    // The real call sequence goes on (a client would write through the handle it got),
                    // and the contents comparison after the transition shows the damage (C01).
                    if op.kind == K::ViewSet {
                        let _ = v.set(tok);
                    } else {
                        let _ = v.remove();
                    }
                    return out;
                }
                let at = norm(v.prefix().raw());
                let view_repr = v.prefix().raw();
                let is_node = node_at(w, at).is_some();
                let had = model.get(at).map(|e| e.val);
                // value() / prefix_value() before
                let val = v.value().copied();
                expect!(out, val == had, "C11", "TrieViewMut::value", "value", "view at {:x?}: value() {:?}, model {:?}", at, val, had);
                if op.kind == K::ViewSet {
                    match v.set(tok) {
                        Ok(old) => {
                            expect!(out, is_node, "C11", "TrieViewMut::set", "set-succeeded-on-virtual", "view at {:x?}", at);
                            expect!(out, old == had, "C01", "TrieViewMut::set", "return-value", "set at {:x?} returned {:?}, model {:?}", at, old, had);
                            if had.is_some() {
                                model.set_val(at, tok);
                            } else {
                                // documented: the node keeps its existing prefix
                                model.insert(view_repr, tok);
                            }
                        }
                        Err(back) => {
                            expect!(out, !is_node, "C11", "TrieViewMut::set", "set-failed-on-node", "view at {:x?}", at);
                            expect!(out, back == tok, "C01", "TrieViewMut::set", "error-value", "{} vs {}", back, tok);
                        }
                    }
                } else {
                    let got = v.remove();
                    expect!(out, got == had, "C01", "TrieViewMut::remove", "return-value", "remove at {:x?} returned {:?}, model {:?}", at, got, had);
                    if had.is_some() {
                        model.remove(at);
                    }
                }
                let _ = want;
            }
        }
        K::ViewWrite => {
            let (v, _) = nav_view(map, model, w, k, 0, &mut out, &uni.keys);
            if let Some(mut v) = v {
                let at = norm(v.prefix().raw());
                let had = model.obs_of(at);
                match op.arg {
                    0 => {
                        let r = v.value_mut();
                        expect!(out, r.as_deref().copied() == had.map(|o| o.2), "C13", "TrieViewMut::value_mut", "value", "{:?} vs {:?}", r, had);
                        if let Some(r) = r {
                            *r = tok;
                            if had.is_some() {
                                model.set_val(at, tok);
                            }
                        }
                    }
                    1 => {
                        let r = v.prefix_value_mut();
                        let got = r.as_ref().map(|(p, v)| obs(*p, v));
                        expect!(out, got == had, "C13", "TrieViewMut::prefix_value_mut", "value", "{:x?} vs {:x?}", got, had);
                        if let Some((_, r)) = r {
                            *r = tok;
                            if had.is_some() {
                                model.set_val(at, tok);
                            }
                        }
                    }
                    _ => {
                        let want = model.under(at);
                        let limit = cap(want.len());
                        let site = ["", "", "TrieViewMut::iter_mut", "TrieViewMut::values_mut", "TrieViewMut::into_iter"][op.arg as usize];
                        let mut held: Vec<(Option<GK>, &mut u32)> = match op.arg {
                            2 => v.iter_mut().take(limit).map(|(p, v)| (Some(p.raw()), v)).collect(),
                            3 => v.values_mut().take(limit).map(|v| (None, v)).collect(),
                            _ => v.into_iter().take(limit).map(|(p, v)| (Some(p.raw()), v)).collect(),
                        };
                        let got: Vec<(Option<GK>, u32)> = held.iter().map(|(p, v)| (*p, **v)).collect();
                        let want_cmp: Vec<(Option<GK>, u32)> = want.iter().map(|o| (if op.arg == 3 { None } else { Some((o.0, o.1)) }, o.2)).collect();
                        expect!(out, got == want_cmp, "C13", site, "yield-sequence", "{site} at {:x?} yielded {:x?}, expected {:x?}", at, got, want_cmp);
                        let mut addrs: Vec<usize> = held.iter().map(|(_, v)| *v as *const u32 as usize).collect();
                        addrs.sort();
                        addrs.dedup();
                        expect!(out, addrs.len() == held.len(), "C14", site, "aliasing-mutable-references", "{} references, {} distinct addresses", held.len(), addrs.len());
                        for (i, (_, v)) in held.iter_mut().enumerate() {
                            **v = tok + i as u32;
                        }
                        drop(held);
                        if got == want_cmp {
                            for (i, o) in want.iter().enumerate() {
                                model.set_val((o.0, o.1), tok + i as u32);
                            }
                        }
                    }
                }
            }
        }
        K::CloneSelf => {
            // the clone replaces the map: contents, len and well-formedness are judged by the
            // per-transition oracle (the property does not require an identical arena layout)
            let before = map.verif_dump();
            let c = map.clone();
            let after = map.verif_dump();
            let same = before.arena_len == after.arena_len && before.free == after.free && before.count == after.count && before.slots == after.slots;
            expect!(out, same, "C19", "PrefixMap::clone", "clone-changes-original", "clone() changed the original map");
            *map = c;
        }
        K::Recollect | K::RecollectRev => {
            let old = std::mem::take(map);
            let n = old.len();
            let mut items: Vec<(P, u32)> = old.into_iter().take(cap(n)).collect();
            if op.kind == K::RecollectRev {
                items.reverse();
            }
            *map = items.into_iter().collect();
        }
        K::FromIterDup => {
            let old = std::mem::take(map);
            let n = old.len();
            let first: Vec<(P, u32)> = old.into_iter().take(cap(n)).collect();
            let mut seq: Vec<(P, u32)> = first.clone();
            for (i, (p, _)) in first.iter().enumerate() {
                let r = p.raw();
                let nk = norm(r);
                let other = if r == with_rep(nk, 1, uni.width) { with_rep(nk, 0, uni.width) } else { with_rep(nk, 1, uni.width) };
                let other = if P::KEEPS_HOST { other } else { nk };
                seq.push((mkp(other), tok + i as u32));
                model.insert(other, tok + i as u32);
            }
            *map = seq.into_iter().collect();
        }
        K::CloneFrom => {
            // a target with two released slots and one live entry
            let mut dst: PrefixMap<P, u32> = PrefixMap::new();
            let ks = &uni.keys;
            for (i, k) in ks.iter().enumerate().take(4) {
                dst.insert(mkp(*k), 90_000 + i as u32);
            }
            for k in ks.iter().take(4).skip(1) {
                dst.remove(&mkp::<P>(*k));
            }
            dst.clone_from(map);
            *map = dst;
        }
        K::FromIterBig => {
            let old = std::mem::take(map);
            let n = old.len();
            let first: Vec<(P, u32)> = old.into_iter().take(cap(n)).collect();
            let mut seq: Vec<(P, u32)> = vec![];
            // six rounds; within a round the keys come longest-first in even rounds and
            // shortest-first in odd rounds, so the sequence is not sorted by length
            for round in 0..6u32 {
                let mut items: Vec<(GK, u32)> = first
                    .iter()
                    .enumerate()
                    .map(|(i, (p, _))| {
                        let nk = norm(p.raw());
                        let k = with_rep(nk, ((round + i as u32) % 2) as u8, uni.width);
                        (if P::KEEPS_HOST { k } else { nk }, tok + round * 50 + i as u32)
                    })
                    .collect();
                items.sort_by_key(|(k, _)| k.1);
                if round % 2 == 0 {
                    items.reverse();
                }
                for (k, v) in items {
                    seq.push((mkp(k), v));
                    model.insert(k, v);
                }
            }
            *map = seq.into_iter().collect();
        }
        K::IntoChildrenCollect => {
            let old = std::mem::take(map);
            let n = old.len();
            let items: Vec<(P, u32)> = old.into_children(&p).take(cap(n)).collect();
            let got: Vec<Obs> = items.iter().map(|(p, v)| obs(p, v)).collect();
            let want = model.under(nk);
            expect!(out, got == want, "C10", "PrefixMap::into_children", "yield-sequence", "into_children({:x?}) yielded {:x?}, model {:x?}", k, got, want);
            *model = model.restrict(nk);
            *map = items.into_iter().collect();
        }
    }
    out
}

#[derive(Clone, Copy, Debug, PartialEq, Eq)]
pub enum Alphabet {
    /// every operation, every navigation, both representations
    Full,
    /// one representative per distinct code path
    Structural,
    /// insert / remove / retain / clear (+ Entry API, collect): canonical shapes only
    Canonical,
    /// every operation that can store, replace or drop a representation (used with the
    /// representation of every node in the state key)
    Repr,
}

/// enumerate the operations enabled in a state (they depend on the state only through the stored
/// entries, for `retain` subsets)
pub fn enumerate_ops(uni: &Universe, model: &Model, alpha: Alphabet, rep_mode: u8, retain_all_subsets: bool) -> Vec<Op> {
    let mut v = vec![];
    let reps: &[u8] = match rep_mode {
        0 => &[0],
        1 => &[1],
        _ => &[0, 1],
    };
    let nkeys = uni.keys.len() as u8;
    let per_key: Vec<(K, Vec<u32>)> = match alpha {
        Alphabet::Full => vec![
            (K::Insert, vec![0]),
            (K::EntryInsert, vec![0]),
            (K::EntryOrInsert, vec![0]),
            (K::EntryOrInsertWith, vec![0]),
            (K::EntryOrDefault, vec![0]),
            (K::EntryAndModifyOrInsert, vec![0]),
            (K::EntryMatch, vec![0, 1, 2]),
            (K::Remove, vec![0]),
            (K::RemoveKeepTree, vec![0]),
            (K::RemoveChildren, vec![0]),
            (K::GetMutWrite, vec![0]),
            (K::GetLpmMutWrite, vec![0]),
            (K::ChildrenMutWrite, vec![0]),
            (K::ViewSet, (0..8 + nkeys as u32).collect()),
            (K::ViewRemove, (0..8 + nkeys as u32).collect()),
            (K::ViewWrite, (0..5).collect()),
            (K::IntoChildrenCollect, vec![0]),
        ],
        Alphabet::Structural => vec![
            (K::Insert, vec![0]),
            (K::EntryMatch, vec![0, 1]),
            (K::Remove, vec![0]),
            (K::RemoveKeepTree, vec![0]),
            (K::RemoveChildren, vec![0]),
            (K::ViewSet, vec![0]),
            (K::ViewRemove, vec![0]),
        ],
        Alphabet::Canonical => vec![(K::Insert, vec![0]), (K::EntryOrInsert, vec![0]), (K::Remove, vec![0])],
        Alphabet::Repr => vec![
            (K::Insert, vec![0]),
            (K::EntryInsert, vec![0]),
            (K::EntryOrInsert, vec![0]),
            (K::EntryOrInsertWith, vec![0]),
            (K::EntryOrDefault, vec![0]),
            (K::EntryAndModifyOrInsert, vec![0]),
            (K::EntryMatch, vec![0, 1, 2]),
            (K::Remove, vec![0]),
            (K::RemoveKeepTree, vec![0]),
            (K::RemoveChildren, vec![0]),
            (K::GetMutWrite, vec![0]),
            (K::ViewSet, vec![0]),
            (K::ViewRemove, vec![0]),
            (K::IntoChildrenCollect, vec![0]),
        ],
    };
    for key in 0..nkeys {
        for (kind, args) in &per_key {
            for &arg in args {
                for &rep in reps {
                    // on universes where both representations are not part of the key, alternate
                    v.push(Op { kind: *kind, key, rep, arg });
                }
            }
        }
    }
    // key-less operations
    v.push(Op { kind: K::Clear, key: 0, rep: 0, arg: 0 });
    if alpha == Alphabet::Repr {
        for kind in [K::CloneSelf, K::Recollect, K::RecollectRev, K::FromIterDup, K::FromIterBig] {
            v.push(Op { kind, key: 0, rep: 0, arg: 0 });
        }
    }
    if alpha == Alphabet::Full {
        for kind in [K::IterMutWrite, K::ValuesMutWrite, K::CloneSelf, K::CloneFrom, K::Recollect, K::RecollectRev, K::FromIterDup, K::FromIterBig] {
            v.push(Op { kind, key: 0, rep: 0, arg: 0 });
        }
    } else if alpha == Alphabet::Canonical {
        v.push(Op { kind: K::Recollect, key: 0, rep: 0, arg: 0 });
        v.push(Op { kind: K::FromIterDup, key: 0, rep: 0, arg: 0 });
    }
    // retain: keep-subsets of the stored entries
    let ids: Vec<usize> = model.keys().iter().filter_map(|k| uni.key_id(*k)).collect();
    if retain_all_subsets && ids.len() <= 16 {
        for sub in 0..(1u32 << ids.len()) {
            let mut mask = 0u32;
            for (i, id) in ids.iter().enumerate() {
                if (sub >> i) & 1 == 1 {
                    mask |= 1 << id;
                }
            }
            // keeping everything is the identity and also enumerated (predicate call count)
            v.push(Op { kind: K::Retain, key: 0, rep: 0, arg: mask });
        }
    } else {
        // family: drop one key, drop one subtree, drop one length class, drop all, keep all
        let all: u32 = ids.iter().fold(0, |m, id| m | (1 << id));
        let mut masks = vec![0u32, all];
        for id in &ids {
            masks.push(all & !(1 << id));
        }
        for (i, k) in uni.keys.iter().enumerate() {
            let _ = i;
            let sub: u32 = ids.iter().filter(|id| covers(*k, uni.keys[**id])).fold(0, |m, id| m | (1 << id));
            masks.push(all & !sub);
        }
        let lens: std::collections::BTreeSet<u8> = uni.keys.iter().map(|k| k.1).collect();
        for l in lens {
            let sub: u32 = ids.iter().filter(|id| uni.keys[**id].1 == l).fold(0, |m, id| m | (1 << id));
            masks.push(all & !sub);
        }
        masks.sort();
        masks.dedup();
        for mask in masks {
            v.push(Op { kind: K::Retain, key: 0, rep: 0, arg: mask });
        }
    }
    v
}
