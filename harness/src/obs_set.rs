//! Per-state observer suites for `PrefixSet<P>`: the twins of `obs.rs`.

use prefix_trie::{AsView, PrefixSet};

use crate::expect;
use crate::explore::{compare_entries, St};
use crate::model::{norm, Obs};
use crate::obs::reps;
use crate::ops::{cap, mkp, Cx};
use crate::ptypes::{PType, GK};
use crate::sut::set_obs;
use crate::universe::with_rep;
use crate::viol::Viol;

pub type SetSt<P> = St<PrefixSet<P>>;

fn cmp_key(out: &mut Vec<Viol>, prop: &'static str, site: &str, q: GK, got: Option<GK>, want: Option<GK>) {
    if got == want {
        return;
    }
    if got.map(norm) == want.map(norm) {
        out.push(Viol::new("C18", site, "stored-representation", format!("{site}({:x?}) returned {:x?}, stored {:x?}", q, got, want)));
    } else {
        out.push(Viol::new(prop, site, "wrong-entry", format!("{site}({:x?}) returned {:x?}, model {:x?}", q, got, want)));
    }
}

fn drain<I: Iterator>(mut it: I, limit: usize) -> (Vec<I::Item>, bool) {
    let mut v = vec![];
    while v.len() < limit {
        match it.next() {
            Some(x) => v.push(x),
            None => break,
        }
    }
    let fused = it.next().is_none() && it.next().is_none() && it.next().is_none();
    let ok = fused || v.len() >= limit;
    (v, ok)
}

fn seq(out: &mut Vec<Viol>, prop: &'static str, site: &str, ctx: String, got: Vec<Obs>, fused: bool, want: &[Obs]) {
    if let Some(mut v) = compare_entries(site, &got, want) {
        if v.prop != "C18" {
            v.prop = prop;
        }
        v.detail = format!("{ctx}{}", v.detail);
        out.push(v);
    }
    expect!(out, fused, prop, site, "not-fused", "{ctx}{site} yielded an item after None");
}

/// C01 / C02 / C09 / C18 for sets: contains, get, get_lpm, get_spm, cover
pub fn lookups<P: PType>(st: &SetSt<P>, cx: &Cx) -> (Vec<Viol>, u64) {
    let mut out = vec![];
    let mut n = 0u64;
    let set = &st.map;
    for &q in &cx.uni.queries {
        let want = st.model.obs_of(q).map(|o| (o.0, o.1));
        let cover = st.model.cover(q);
        let wl = cover.last().map(|o| (o.0, o.1));
        let ws = cover.first().map(|o| (o.0, o.1));
        for &rep in reps::<P>() {
            let qk = with_rep(q, rep, cx.uni.width);
            let p: P = mkp(qk);
            let c = set.contains(&p);
            expect!(out, c == want.is_some(), "C01", "PrefixSet::contains", "presence", "contains({:x?}) -> {}, model {:x?}", qk, c, want);
            cmp_key(&mut out, "C01", "PrefixSet::get", qk, set.get(&p).map(|p| p.raw()), want);
            cmp_key(&mut out, "C02", "PrefixSet::get_lpm", qk, set.get_lpm(&p).map(|p| p.raw()), wl);
            cmp_key(&mut out, "C09", "PrefixSet::get_spm", qk, set.get_spm(&p).map(|p| p.raw()), ws);
            let (g, f) = drain(set.cover(&p).map(set_obs), cap(cover.len()));
            let wc: Vec<Obs> = cover.iter().map(|o| (o.0, o.1, 0)).collect();
            if g != wc {
                let nk = |v: &[Obs]| -> Vec<GK> { v.iter().map(|o| norm((o.0, o.1))).collect() };
                let prop = if nk(&g) == nk(&wc) { "C18" } else { "C09" };
                out.push(Viol::new(prop, "PrefixSet::cover", "cover-list", format!("cover({:x?}) -> {:x?}, model {:x?}", qk, g, wc)));
            }
            expect!(out, f, "C09", "PrefixSet::cover", "not-fused", "cover({:x?})", qk);
            let want_c = st.model.under(q);
            let (g, f) = drain(set.children(&p).map(set_obs), cap(want_c.len()));
            seq(&mut out, "C10", "PrefixSet::children", format!("selector {:x?}: ", qk), g, f, &want_c);
            n += 6;
        }
    }
    (out, n)
}

/// C03 for sets
pub fn iters<P: PType>(st: &SetSt<P>, _cx: &Cx) -> (Vec<Viol>, u64) {
    let mut out = vec![];
    let mut n = 0u64;
    let set = &st.map;
    let want = st.model.entries();
    let lim = cap(want.len());
    let (g, f) = drain(set.iter().map(set_obs), lim);
    seq(&mut out, "C03", "PrefixSet::iter", String::new(), g, f, &want);
    let (g, f) = drain((&st.map).into_iter().map(set_obs), lim);
    seq(&mut out, "C03", "&PrefixSet::into_iter", String::new(), g, f, &want);
    let (g, f) = drain(set.clone().into_iter().map(|p| set_obs(&p)), lim);
    seq(&mut out, "C03", "PrefixSet::into_iter", String::new(), g, f, &want);
    n += 3;
    for i in 0..=want.len() {
        let mut it = set.iter();
        let mut ii = set.clone().into_iter();
        for _ in 0..i {
            it.next();
            ii.next();
        }
        let (g, f) = drain(it.clone().map(set_obs), lim);
        seq(&mut out, "C03", "set::Iter::clone", String::new(), g, f, &want[i..]);
        let (g, f) = drain(ii.clone().map(|p| set_obs(&p)), lim);
        seq(&mut out, "C03", "set::IntoIter::clone", String::new(), g, f, &want[i..]);
        let (g, f) = drain(it.map(set_obs), lim);
        seq(&mut out, "C03", "set::Iter (after clone)", String::new(), g, f, &want[i..]);
        n += 3;
    }
    (out, n)
}

/// C11 for sets: views of a set address exactly the members under the prefix
pub fn views<P: PType>(st: &SetSt<P>, cx: &Cx) -> (Vec<Viol>, u64) {
    let mut out = vec![];
    let mut n = 0u64;
    let set = &st.map;
    for &q in &cx.uni.queries {
        let want = st.model.under(q);
        for &rep in reps::<P>() {
            let qk = with_rep(q, rep, cx.uni.width);
            n += 1;
            match set.view_at(mkp(qk)) {
                None => expect!(out, want.is_empty(), "C11", "AsView::view_at (set)", "view-missing", "view_at({:x?}) is None, model has {:x?}", qk, want),
                Some(v) => {
                    expect!(out, norm(v.prefix().raw()) == q, "C11", "TrieView::prefix (set)", "prefix-is-query", "view_at({:x?}).prefix() = {:x?}", qk, v.prefix().raw());
                    expect!(out, v.value().is_some() == st.model.get(q).is_some(), "C11", "TrieView::value (set)", "value", "view_at({:x?})", qk);
                    let (g, f) = drain(v.keys().map(set_obs), cap(want.len()));
                    seq(&mut out, "C11", "TrieView::keys (set)", format!("view_at({:x?}): ", qk), g, f, &want);
                    if cx.canonical && q.1 > 0 {
                        expect!(out, !want.is_empty(), "C11", "AsView::view_at (set)", "empty-view-exists", "view_at({:x?})", qk);
                    }
                }
            }
        }
    }
    (out, n)
}
