//! Per-state observer suites for `PrefixMap<P, u32>` (C01, C02, C03, C09, C10, C18).

use prefix_trie::map::Entry;
use prefix_trie::PrefixMap;

use crate::expect;
use crate::explore::{compare_entries, St};
use crate::model::{norm, Obs};
use crate::ops::{cap, mkp, obs, Cx};
use crate::ptypes::{PType, GK};
use crate::universe::with_rep;
use crate::viol::Viol;

pub type MapSt<P> = St<PrefixMap<P, u32>>;

pub fn reps<P: PType>() -> &'static [u8] {
    if P::KEEPS_HOST {
        &[0, 1]
    } else {
        &[0]
    }
}

/// classify a single-entry mismatch: representation only -> C18, otherwise `prop`
fn cmp_entry(out: &mut Vec<Viol>, prop: &'static str, site: &str, q: GK, got: Option<Obs>, want: Option<Obs>) {
    if got == want {
        return;
    }
    let n = |o: Option<Obs>| o.map(|o| (norm((o.0, o.1)), o.2));
    if n(got) == n(want) {
        out.push(Viol::new("C18", site, "stored-representation", format!("{site}({:x?}) returned representation {:x?}, stored is {:x?}", q, got, want)));
    } else {
        out.push(Viol::new(prop, site, "wrong-entry", format!("{site}({:x?}) returned {:x?}, model {:x?}", q, got, want)));
    }
}

/// C01 (+C18): exact-match observers for every query and representation
pub fn exact<P: PType>(st: &MapSt<P>, cx: &Cx) -> (Vec<Viol>, u64) {
    let mut out = vec![];
    let mut n = 0u64;
    let map = &st.map;
    let mut mc = st.map.clone();
    for &q in &cx.uni.queries {
        let want = st.model.obs_of(q);
        for &rep in reps::<P>() {
            let qk = with_rep(q, rep, cx.uni.width);
            let p: P = mkp(qk);
            let g = map.get(&p).copied();
            expect!(out, g == want.map(|o| o.2), "C01", "PrefixMap::get", "value", "get({:x?}) -> {:?}, model {:?}", qk, g, want);
            let gkv = map.get_key_value(&p).map(|(p, v)| obs(p, v));
            cmp_entry(&mut out, "C01", "PrefixMap::get_key_value", qk, gkv, want);
            let c = map.contains_key(&p);
            expect!(out, c == want.is_some(), "C01", "PrefixMap::contains_key", "presence", "contains_key({:x?}) -> {}, model {:?}", qk, c, want);
            let gm = mc.get_mut(&p).map(|v| *v);
            expect!(out, gm == want.map(|o| o.2), "C01", "PrefixMap::get_mut", "value", "get_mut({:x?}) -> {:?}, model {:?}", qk, gm, want);
            let stored_q = if P::KEEPS_HOST { qk } else { norm(qk) };
            let e = mc.entry(mkp(qk));
            let eg = e.get().copied();
            expect!(out, eg == want.map(|o| o.2), "C01", "Entry::get", "value", "entry({:x?}).get() -> {:?}, model {:?}", qk, eg, want);
            let ek = e.key().raw();
            match (&e, want) {
                (Entry::Occupied(_), Some(o)) => expect!(out, ek == (o.0, o.1), "C18", "Entry::key", "occupied-key-is-stored-repr", "entry({:x?}).key() -> {:x?}, stored {:x?}", qk, ek, (o.0, o.1)),
                (Entry::Vacant(_), None) => expect!(out, ek == stored_q, "C01", "Entry::key", "vacant-key-is-argument", "entry({:x?}).key() -> {:x?}", qk, ek),
                (Entry::Occupied(_), None) => out.push(Viol::new("C01", "PrefixMap::entry", "occupied-but-absent", format!("entry({:x?})", qk))),
                (Entry::Vacant(_), Some(_)) => out.push(Viol::new("C01", "PrefixMap::entry", "vacant-but-present", format!("entry({:x?})", qk))),
            }
            n += 6;
        }
    }
    // dropping entries without using them must leave the map untouched
    if let Some(v) = compare_entries("PrefixMap::iter (after unused entries)", &crate::ops::collect_iter(&mc), &st.model.entries()) {
        out.push(v);
    }
    expect!(out, mc.len() == st.model.len(), "C04", "PrefixMap::len", "len-after-unused-entry", "{} vs {}", mc.len(), st.model.len());
    (out, n)
}

/// C02 (+C18): longest-prefix match
pub fn lpm<P: PType>(st: &MapSt<P>, cx: &Cx) -> (Vec<Viol>, u64) {
    let mut out = vec![];
    let mut n = 0u64;
    let map = &st.map;
    let mut mc = st.map.clone();
    for &q in &cx.uni.queries {
        let want = st.model.lpm(q);
        for &rep in reps::<P>() {
            let qk = with_rep(q, rep, cx.uni.width);
            let p: P = mkp(qk);
            let a = map.get_lpm(&p).map(|(p, v)| obs(p, v));
            cmp_entry(&mut out, "C02", "PrefixMap::get_lpm", qk, a, want);
            let b = map.get_lpm_prefix(&p).map(|p| p.raw());
            let wb = want.map(|o| (o.0, o.1));
            if b != wb {
                if b.map(norm) == wb.map(norm) {
                    out.push(Viol::new("C18", "PrefixMap::get_lpm_prefix", "stored-representation", format!("get_lpm_prefix({:x?}) -> {:x?}, stored {:x?}", qk, b, wb)));
                } else {
                    out.push(Viol::new("C02", "PrefixMap::get_lpm_prefix", "wrong-entry", format!("get_lpm_prefix({:x?}) -> {:x?}, model {:x?}", qk, b, wb)));
                }
            }
            let c = mc.get_lpm_mut(&p).map(|(p, v)| obs(p, v));
            cmp_entry(&mut out, "C02", "PrefixMap::get_lpm_mut", qk, c, want);
            n += 3;
        }
    }
    (out, n)
}

/// drain an iterator with a cap, then check that it is fused
fn drain<I: Iterator>(mut it: I, limit: usize) -> (Vec<I::Item>, bool) {
    let mut v = vec![];
    while v.len() < limit {
        match it.next() {
            Some(x) => v.push(x),
            None => break,
        }
    }
    let fused = it.next().is_none() && it.next().is_none() && it.next().is_none();
    let ok = fused || v.len() >= limit;
    (v, ok)
}

fn check_seq(out: &mut Vec<Viol>, site: &str, got: Vec<Obs>, fused: bool, want: &[Obs]) {
    if let Some(mut v) = compare_entries(site, &got, want) {
        // inside the iterator suite every contents mismatch is an iterator fault
        if v.prop == "C01" {
            v.prop = "C03";
        }
        out.push(v);
    }
    expect!(out, fused, "C03", site, "not-fused", "{site} yielded an item after returning None");
}

/// C03: every iterator
pub fn iters<P: PType>(st: &MapSt<P>, _cx: &Cx) -> (Vec<Viol>, u64) {
    let mut out = vec![];
    let mut n = 0u64;
    let map = &st.map;
    let want = st.model.entries();
    let lim = cap(want.len());
    let keys_only: Vec<Obs> = want.iter().map(|o| (o.0, o.1, 0)).collect();
    let vals_only: Vec<Obs> = want.iter().map(|o| (0, 0, o.2)).collect();

    let (g, f) = drain(map.iter().map(|(p, v)| obs(p, v)), lim);
    check_seq(&mut out, "PrefixMap::iter", g, f, &want);
    let (g, f) = drain((&st.map).into_iter().map(|(p, v)| obs(p, v)), lim);
    check_seq(&mut out, "&PrefixMap::into_iter", g, f, &want);
    let (g, f) = drain(map.keys().map(|p| obs(p, &0)), lim);
    check_seq(&mut out, "PrefixMap::keys", g, f, &keys_only);
    let (g, f) = drain(map.values().map(|v| (0, 0, *v)), lim);
    check_seq(&mut out, "PrefixMap::values", g, f, &vals_only);
    let mut mc = map.clone();
    let (g, f) = drain(mc.iter_mut().map(|(p, v)| obs(p, v)), lim);
    check_seq(&mut out, "PrefixMap::iter_mut", g, f, &want);
    let (g, f) = drain(mc.values_mut().map(|v| (0, 0, *v)), lim);
    check_seq(&mut out, "PrefixMap::values_mut", g, f, &vals_only);
    let (g, f) = drain(map.clone().into_iter().map(|(p, v)| obs(&p, &v)), lim);
    check_seq(&mut out, "PrefixMap::into_iter", g, f, &want);
    let (g, f) = drain(map.clone().into_keys().map(|p| obs(&p, &0)), lim);
    check_seq(&mut out, "PrefixMap::into_keys", g, f, &keys_only);
    let (g, f) = drain(map.clone().into_values().map(|v| (0, 0, v)), lim);
    check_seq(&mut out, "PrefixMap::into_values", g, f, &vals_only);
    n += 9;
    // clones taken at every position yield exactly the remainder
    for i in 0..=want.len() {
        let mut it = map.iter();
        let mut k = map.keys();
        let mut v = map.values();
        let mut ii = map.clone().into_iter();
        let mut ik = map.clone().into_keys();
        let mut iv = map.clone().into_values();
        for _ in 0..i {
            it.next();
            k.next();
            v.next();
            ii.next();
            ik.next();
            iv.next();
        }
        let (g, f) = drain(it.clone().map(|(p, v)| obs(p, v)), lim);
        check_seq(&mut out, "Iter::clone", g, f, &want[i..]);
        let (g, f) = drain(k.clone().map(|p| obs(p, &0)), lim);
        check_seq(&mut out, "Keys::clone", g, f, &keys_only[i..]);
        let (g, f) = drain(v.clone().map(|v| (0, 0, *v)), lim);
        check_seq(&mut out, "Values::clone", g, f, &vals_only[i..]);
        let (g, f) = drain(ii.clone().map(|(p, v)| obs(&p, &v)), lim);
        check_seq(&mut out, "IntoIter::clone", g, f, &want[i..]);
        let (g, f) = drain(ik.clone().map(|p| obs(&p, &0)), lim);
        check_seq(&mut out, "IntoKeys::clone", g, f, &keys_only[i..]);
        let (g, f) = drain(iv.clone().map(|v| (0, 0, v)), lim);
        check_seq(&mut out, "IntoValues::clone", g, f, &vals_only[i..]);
        // clone_from: into a default-constructed iterator, into an iterator over another map, and
        // "rewinding" a further advanced iterator of the same traversal to this snapshot
        {
            let other: PrefixMap<P, u32> = map.iter().take(want.len() / 2).map(|(p, v)| (p.clone(), *v + 1)).collect();
            let mut t = prefix_trie::map::Iter::<P, u32>::default();
            t.clone_from(&it);
            let (g, f) = drain(t.map(|(p, v)| obs(p, v)), lim);
            check_seq(&mut out, "Iter::clone_from (default target)", g, f, &want[i..]);
            let mut t = other.iter();
            t.next();
            t.clone_from(&it);
            let (g, f) = drain(t.map(|(p, v)| obs(p, v)), lim);
            check_seq(&mut out, "Iter::clone_from (target over another map)", g, f, &want[i..]);
            let mut t = k.clone();
            t.next();
            t.clone_from(&k);
            let (g, f) = drain(t.map(|p| obs(p, &0)), lim);
            check_seq(&mut out, "Keys::clone_from", g, f, &keys_only[i..]);
            for ahead in [1usize, 2, want.len()] {
                let mut t = ii.clone();
                for _ in 0..ahead {
                    t.next();
                }
                t.clone_from(&ii);
                let (g, f) = drain(t.map(|(p, v)| obs(&p, &v)), lim);
                check_seq(&mut out, "IntoIter::clone_from (rewind)", g, f, &want[i..]);
            }
            let mut t = other.clone().into_iter();
            t.clone_from(&ii);
            let (g, f) = drain(t.map(|(p, v)| obs(&p, &v)), lim);
            check_seq(&mut out, "IntoIter::clone_from (target over another map)", g, f, &want[i..]);
            let mut t = map.clone().into_values();
            t.next();
            t.clone_from(&iv);
            let (g, f) = drain(t.map(|v| (0, 0, v)), lim);
            check_seq(&mut out, "IntoValues::clone_from", g, f, &vals_only[i..]);
            n += 8;
        }
        // the originals continue unaffected
        let (g, f) = drain(it.map(|(p, v)| obs(p, v)), lim);
        check_seq(&mut out, "Iter (after clone)", g, f, &want[i..]);
        let (g, f) = drain(ii.map(|(p, v)| obs(&p, &v)), lim);
        check_seq(&mut out, "IntoIter (after clone)", g, f, &want[i..]);
        n += 8;
    }
    // default-constructed iterators are empty and fused
    let (g, f) = drain(prefix_trie::map::Iter::<P, u32>::default().map(|(p, v)| obs(p, v)), 4);
    check_seq(&mut out, "Iter::default", g, f, &[]);
    let (g, f) = drain(prefix_trie::map::IterMut::<P, u32>::default().map(|(p, v)| obs(p, v)), 4);
    check_seq(&mut out, "IterMut::default", g, f, &[]);
    // (Keys / Values / ValuesMut derive Default with `P: Default` bounds: not available generically)
    n += 2;
    (out, n)
}

/// C09: cover / shortest-prefix match
pub fn cover<P: PType>(st: &MapSt<P>, cx: &Cx) -> (Vec<Viol>, u64) {
    let mut out = vec![];
    let mut n = 0u64;
    let map = &st.map;
    let mut mc = st.map.clone();
    for &q in &cx.uni.queries {
        let want = st.model.cover(q);
        let lim = cap(want.len());
        for &rep in reps::<P>() {
            let qk = with_rep(q, rep, cx.uni.width);
            let p: P = mkp(qk);
            let (g, f) = drain(map.cover(&p).map(|(p, v)| obs(p, v)), lim);
            check_cover(&mut out, "PrefixMap::cover", qk, g, f, &want);
            let (g, f) = drain(map.cover_keys(&p).map(|p| obs(p, &0)), lim);
            let wk: Vec<Obs> = want.iter().map(|o| (o.0, o.1, 0)).collect();
            check_cover(&mut out, "PrefixMap::cover_keys", qk, g, f, &wk);
            let (g, f) = drain(map.cover_values(&p).map(|v| (0, 0, *v)), lim);
            let wv: Vec<Obs> = want.iter().map(|o| (0, 0, o.2)).collect();
            check_cover(&mut out, "PrefixMap::cover_values", qk, g, f, &wv);
            let s = map.get_spm(&p).map(|(p, v)| obs(p, v));
            cmp_entry(&mut out, "C09", "PrefixMap::get_spm", qk, s, want.first().copied());
            let sp = map.get_spm_prefix(&p).map(|p| obs(p, &0));
            cmp_entry(&mut out, "C09", "PrefixMap::get_spm_prefix", qk, sp, want.first().map(|o| (o.0, o.1, 0)));
            let l = map.get_lpm(&p).map(|(p, v)| obs(p, v));
            cmp_entry(&mut out, "C09", "PrefixMap::get_lpm (last of cover)", qk, l, want.last().copied());
            let lp = map.get_lpm_prefix(&p).map(|p| obs(p, &0));
            cmp_entry(&mut out, "C09", "PrefixMap::get_lpm_prefix (last of cover)", qk, lp, want.last().map(|o| (o.0, o.1, 0)));
            let lm = mc.get_lpm_mut(&p).map(|(p, v)| obs(p, v));
            cmp_entry(&mut out, "C09", "PrefixMap::get_lpm_mut (last of cover)", qk, lm, want.last().copied());
            n += 8;
        }
    }
    (out, n)
}

fn check_cover(out: &mut Vec<Viol>, site: &str, q: GK, got: Vec<Obs>, fused: bool, want: &[Obs]) {
    if got != want {
        let nk = |v: &[Obs]| -> Vec<(GK, u32)> { v.iter().map(|o| (norm((o.0, o.1)), o.2)).collect() };
        if nk(&got) == nk(want) {
            out.push(Viol::new("C18", site, "stored-representation", format!("{site}({:x?}) -> {:x?}, stored {:x?}", q, got, want)));
        } else {
            out.push(Viol::new("C09", site, "cover-list", format!("{site}({:x?}) -> {:x?}, model {:x?}", q, got, want)));
        }
    }
    expect!(out, fused, "C09", site, "not-fused", "{site}({:x?}) yielded an item after None", q);
}

/// C10: children / children_mut / into_children
pub fn children<P: PType>(st: &MapSt<P>, cx: &Cx) -> (Vec<Viol>, u64) {
    let mut out = vec![];
    let mut n = 0u64;
    let map = &st.map;
    let mut mc = map.clone();
    for &q in &cx.uni.queries {
        let want = st.model.under(q);
        let lim = cap(want.len());
        for &rep in reps::<P>() {
            let qk = with_rep(q, rep, cx.uni.width);
            let p: P = mkp(qk);
            let (g, f) = drain(map.children(&p).map(|(p, v)| obs(p, v)), lim);
            check_children(&mut out, "PrefixMap::children", qk, g, f, &want);
            let (g, f) = drain(mc.children_mut(&p).map(|(p, v)| obs(p, v)), lim);
            check_children(&mut out, "PrefixMap::children_mut", qk, g, f, &want);
            let (g, f) = drain(map.clone().into_children(&p).map(|(p, v)| obs(&p, &v)), lim);
            check_children(&mut out, "PrefixMap::into_children", qk, g, f, &want);
            n += 3;
        }
    }
    (out, n)
}

fn check_children(out: &mut Vec<Viol>, site: &str, q: GK, got: Vec<Obs>, fused: bool, want: &[Obs]) {
    if let Some(mut v) = compare_entries(site, &got, want) {
        if v.prop == "C01" || v.prop == "C03" {
            v.prop = "C10";
        }
        v.detail = format!("selector {:x?}: {}", q, v.detail);
        out.push(v);
    }
    expect!(out, fused, "C10", site, "not-fused", "{site}({:x?}) yielded an item after None", q);
}
