//! [E2, continued] (a) set operations between two views of the SAME map (read-only views at every
//! pair of roots; `_mut` operations over every pair of disjoint mutable views obtained by recursive
//! `split()`), and (b) equality / clone / rebuild / serde round trips on all pairs of states (C19).

use std::collections::HashMap;

use prefix_trie::{AsViewMut, PrefixMap, PrefixSet, TrieViewMut};

use crate::model::{covers, norm, Obs};
use crate::ops::{cap, mkp};
use crate::pairs::{eval_ro, expected_union, PState, PairCounters, Side};
use crate::ptypes::{PType, GK};
use crate::universe::Universe;
use crate::viol::{guarded, Viol};

#[derive(Clone, Debug)]
pub struct SelfFound {
    pub viol: Viol,
    pub a: usize,
    pub what: String,
    pub occurrences: u64,
}

fn split_views<'a, P: PType>(v: TrieViewMut<'a, P, u32>, d: usize, acc: &mut Vec<TrieViewMut<'a, P, u32>>) {
    if d == 0 || !(v.has_left() || v.has_right()) {
        acc.push(v);
        return;
    }
    let (l, r) = v.split();
    if let Some(l) = l {
        split_views(l, d - 1, acc);
    }
    if let Some(r) = r {
        split_views(r, d - 1, acc);
    }
}

/// all set operations between views of one and the same map
pub fn eval_self<P: PType>(st: &PState<PrefixMap<P, u32>>, uni: &Universe, cnt: &mut PairCounters) -> Vec<(Viol, String)> {
    let mut out: Vec<(Viol, String)> = vec![];
    let entries = st.model.entries();
    let under = |q: GK| -> Vec<Obs> { entries.iter().filter(|o| covers(q, (o.0, o.1))).copied().collect() };
    // ---- read-only: every pair of roots of the same map
    for &qa in &st.roots {
        for &qb in &st.roots {
            let (Some(va), Some(vb)) = (st.sut.view_at_(mkp(qa)), st.sut.view_at_(mkp(qb))) else { continue };
            let (ea, eb) = (under(qa), under(qb));
            let exp = expected_union(&ea, &eb);
            let mut vs = vec![];
            cnt.evaluations += 4;
            eval_ro::<P, u32, u32>(&va, &vb, |v| *v, |v| *v, &exp, qa, qb, cap(ea.len() + eb.len()), cnt, &mut vs);
            // two disjoint sub-views of the same map have an empty intersection (stated explicitly in C06)
            if !covers(qa, qb) && !covers(qb, qa) {
                let n = va.intersection(vb).take(4).count();
                if n != 0 {
                    vs.push(Viol::new("C06", "TrieView::intersection", "disjoint-views-intersect", format!("disjoint views {:x?} and {:x?} of one map: {n} items", qa, qb)));
                }
            }
            for v in vs {
                out.push((v, format!("same map, read-only roots {:x?} / {:x?}", qa, qb)));
            }
        }
    }
    // ---- mutable: every ordered pair of disjoint views from recursive split()
    for d in 1..=(uni.depth as usize + 1) {
        let n_views = {
            let mut m = st.sut.clone();
            let mut acc = vec![];
            split_views(m.view_mut(), d, &mut acc);
            acc.len()
        };
        for i in 0..n_views {
            for j in 0..n_views {
                if i == j {
                    continue;
                }
                for op in 0..4u8 {
                    let mut m = st.sut.clone();
                    let mut snap = entries.clone();
                    {
                        let mut acc = vec![];
                        split_views(m.view_mut(), d, &mut acc);
                        // take views i and j out of the antichain
                        let mut vi = None;
                        let mut vj = None;
                        for (k, v) in acc.into_iter().enumerate() {
                            if k == i {
                                vi = Some(v);
                            } else if k == j {
                                vj = Some(v);
                            }
                        }
                        let (Some(mut vi), Some(vj)) = (vi, vj) else { continue };
                        let (ri, rj) = (norm(vi.prefix().raw()), norm(vj.prefix().raw()));
                        let what = format!("same map, split depth {d}, views {:x?} / {:x?}, op {op}", ri, rj);
                        if covers(ri, rj) || covers(rj, ri) {
                            out.push((Viol::new("C14", "TrieViewMut::split", "overlapping-views", format!("views at {:x?} and {:x?} coexist", ri, rj)), what.clone()));
                            continue;
                        }
                        let (ei, ej) = (under(ri), under(rj));
                        let lim = cap(ei.len() + ej.len());
                        cnt.evaluations += 1;
                        let mut tok = 5_000_000u32;
                        match op {
                            0 => {
                                let exp = expected_union(&ei, &ej);
                                let want: Vec<(GK, Option<u32>, Option<u32>)> = exp.iter().map(|e| (e.key, e.l.map(|o| o.2), e.r.map(|o| o.2))).collect();
                                let mut held: Vec<(GK, Option<&mut u32>, Option<&mut u32>)> = vi.union_mut(vj).take(lim).map(|(p, l, r)| (norm(p.raw()), l, r)).collect();
                                let got: Vec<(GK, Option<u32>, Option<u32>)> = held.iter().map(|(k, l, r)| (*k, l.as_deref().copied(), r.as_deref().copied())).collect();
                                {
                                    let mut addrs: Vec<usize> = held.iter().flat_map(|x| [x.1.as_deref().map(|v| v as *const u32 as usize), x.2.as_deref().map(|v| v as *const u32 as usize)]).flatten().collect();
                                    let n = addrs.len();
                                    addrs.sort();
                                    addrs.dedup();
                                    if addrs.len() != n {
                                        out.push((Viol::new("C14", "TrieViewMut::union_mut", "aliasing-mutable-references", format!("{n} references, {} distinct", addrs.len())), what.clone()));
                                    }
                                }
                                if got != want {
                                    out.push((Viol::new("C05", "TrieViewMut::union_mut", "yield-sequence", format!("union_mut yields {:x?}, expected {:x?}", got, want)), what.clone()));
                                } else {
                                    for (k, l, r) in held.iter_mut() {
                                        for x in [l, r].into_iter().flatten() {
                                            tok += 1;
                                            **x = tok;
                                            if let Some(o) = snap.iter_mut().find(|o| norm((o.0, o.1)) == *k) {
                                                o.2 = tok;
                                            }
                                        }
                                    }
                                }
                            }
                            1 => {
                                let n = vi.intersection_mut(vj).take(4).count();
                                if n != 0 {
                                    out.push((Viol::new("C06", "TrieViewMut::intersection_mut", "disjoint-views-intersect", format!("{n} items")), what.clone()));
                                }
                            }
                            2 => {
                                let want: Vec<(GK, u32, Option<Obs>)> = ei.iter().map(|o| (norm((o.0, o.1)), o.2, None)).collect();
                                let mut held: Vec<(GK, &mut u32, Option<Obs>)> = vi.difference_mut(&vj).take(lim).map(|it| (norm(it.prefix.raw()), it.value, it.right.map(|(p, v)| (p.raw().0, p.raw().1, *v)))).collect();
                                let got: Vec<(GK, u32, Option<Obs>)> = held.iter().map(|(k, v, r)| (*k, **v, *r)).collect();
                                if got != want {
                                    let kv = |v: &[(GK, u32, Option<Obs>)]| -> Vec<(GK, u32)> { v.iter().map(|x| (x.0, x.1)).collect() };
                                    let (prop, cond) = if kv(&got) == kv(&want) { ("C08", "lpm-annotation") } else { ("C07", "yield-sequence") };
                                    out.push((Viol::new(prop, "TrieViewMut::difference_mut", cond, format!("difference_mut yields {:x?}, expected {:x?}", got, want)), what.clone()));
                                } else {
                                    for (k, v, _) in held.iter_mut() {
                                        tok += 1;
                                        **v = tok;
                                        if let Some(o) = snap.iter_mut().find(|o| norm((o.0, o.1)) == *k) {
                                            o.2 = tok;
                                        }
                                    }
                                }
                            }
                            _ => {
                                let want: Vec<(GK, u32)> = ei.iter().map(|o| (norm((o.0, o.1)), o.2)).collect();
                                let mut held: Vec<(GK, &mut u32)> = vi.covering_difference_mut(&vj).take(lim).map(|(p, v)| (norm(p.raw()), v)).collect();
                                let got: Vec<(GK, u32)> = held.iter().map(|(k, v)| (*k, **v)).collect();
                                if got != want {
                                    out.push((Viol::new("C07", "TrieViewMut::covering_difference_mut", "yield-sequence", format!("covering_difference_mut yields {:x?}, expected {:x?}", got, want)), what.clone()));
                                } else {
                                    for (k, v) in held.iter_mut() {
                                        tok += 1;
                                        **v = tok;
                                        if let Some(o) = snap.iter_mut().find(|o| norm((o.0, o.1)) == *k) {
                                            o.2 = tok;
                                        }
                                    }
                                }
                            }
                        }
                    }
                    let got = crate::ops::collect_iter(&m);
                    if got != snap {
                        out.push((Viol::new("C13", "set-operation *_mut writes (same map)", "writes-landed-elsewhere", format!("map holds {:x?}, expected {:x?}", got, snap)), format!("same map, split depth {d}, views {i}/{j}, op {op}")));
                    }
                    if m.len() != snap.len() {
                        out.push((Viol::new("C04", "PrefixMap::len", "len-after-set-operation", format!("{} vs {}", m.len(), snap.len())), format!("same map, split depth {d}")));
                    }
                }
            }
        }
    }
    out
}

pub struct SelfReport {
    pub found: Vec<SelfFound>,
    pub counters: PairCounters,
    pub wall_s: f64,
}

pub fn run_self<P: PType>(states: &[PState<PrefixMap<P, u32>>], uni: &Universe, threads: usize) -> SelfReport {
    let t0 = std::time::Instant::now();
    let threads = threads.max(1);
    let parts: Vec<(HashMap<(String, String, String), SelfFound>, PairCounters)> = std::thread::scope(|s| {
        let mut hs = vec![];
        for t in 0..threads {
            hs.push(s.spawn(move || {
                let mut found: HashMap<(String, String, String), SelfFound> = HashMap::new();
                let mut cnt = PairCounters::default();
                let mut ai = t;
                while ai < states.len() {
                    let r = guarded(|| eval_self::<P>(&states[ai], uni, &mut cnt));
                    let vs = match r {
                        Ok(v) => v,
                        Err(msg) => vec![(Viol::new("C20", "set operation (same map)", "panic", msg), "same map".to_string())],
                    };
                    for (v, what) in vs {
                        let sig = (v.prop.to_string(), v.site.clone(), v.cond.clone());
                        match found.get_mut(&sig) {
                            Some(f) => {
                                f.occurrences += 1;
                                if states[ai].hist.len() < states[f.a].hist.len() {
                                    let occ = f.occurrences;
                                    *f = SelfFound { viol: v, a: ai, what, occurrences: occ };
                                }
                            }
                            None => {
                                found.insert(sig, SelfFound { viol: v, a: ai, what, occurrences: 1 });
                            }
                        }
                    }
                    ai += threads;
                }
                (found, cnt)
            }));
        }
        hs.into_iter().map(|h| h.join().expect("self-pair worker died")).collect()
    });
    let mut all: HashMap<(String, String, String), SelfFound> = HashMap::new();
    let mut cnt = PairCounters::default();
    for (f, c) in parts {
        cnt.evaluations += c.evaluations;
        cnt.items += c.items;
        cnt.nonempty_results += c.nonempty_results;
        cnt.both_items += c.both_items;
        cnt.lpm_some += c.lpm_some;
        for (sig, sf) in f {
            match all.get_mut(&sig) {
                Some(e) => {
                    let occ = e.occurrences + sf.occurrences;
                    if (states[sf.a].hist.len(), sf.a) < (states[e.a].hist.len(), e.a) {
                        *e = sf;
                    }
                    e.occurrences = occ;
                }
                None => {
                    all.insert(sig, sf);
                }
            }
        }
    }
    let mut found: Vec<SelfFound> = all.into_values().collect();
    found.sort_by(|x, y| (&x.viol, x.a).cmp(&(&y.viol, y.a)));
    SelfReport { found, counters: cnt, wall_s: t0.elapsed().as_secs_f64() }
}

// ================================================================================================
// C19: equality, clone, rebuild, serde
// ================================================================================================

pub trait EqSide<P: PType>: Side<P> + PartialEq {
    /// set every value to a constant so that equality depends on the stored prefixes only
    fn normalise(&mut self);
    /// change the value of the last entry (no-op for sets); returns whether something changed
    fn bump_last(&mut self) -> bool;
    /// re-insert the first entry with the other representation (shape preserving)
    fn flip_first_repr(&mut self, width: u8) -> bool;
    fn rebuild(&self) -> Self;
    fn serde_roundtrip(&self) -> Option<Result<Self, String>>;
}

impl<P: PType> EqSide<P> for PrefixMap<P, u32> {
    fn normalise(&mut self) {
        for v in self.values_mut() {
            *v = 7;
        }
    }
    fn bump_last(&mut self) -> bool {
        match self.values_mut().last() {
            Some(v) => {
                *v = 8;
                true
            }
            None => false,
        }
    }
    fn flip_first_repr(&mut self, width: u8) -> bool {
        let Some((p, v)) = self.iter().next().map(|(p, v)| (p.raw(), *v)) else { return false };
        let nk = norm(p);
        let other = if p == crate::universe::with_rep(nk, 1, width) { crate::universe::with_rep(nk, 0, width) } else { crate::universe::with_rep(nk, 1, width) };
        if !P::KEEPS_HOST || other == p {
            return false;
        }
        self.insert(mkp(other), v);
        true
    }
    fn rebuild(&self) -> Self {
        self.iter().map(|(p, v)| (p.clone(), *v)).collect()
    }
    fn serde_roundtrip(&self) -> Option<Result<Self, String>> {
        P::serde_map_roundtrip(self)
    }
}

impl<P: PType> EqSide<P> for PrefixSet<P> {
    fn normalise(&mut self) {}
    fn bump_last(&mut self) -> bool {
        false
    }
    fn flip_first_repr(&mut self, width: u8) -> bool {
        let Some(p) = self.iter().next().map(|p| p.raw()) else { return false };
        let nk = norm(p);
        let other = if p == crate::universe::with_rep(nk, 1, width) { crate::universe::with_rep(nk, 0, width) } else { crate::universe::with_rep(nk, 1, width) };
        if !P::KEEPS_HOST || other == p {
            return false;
        }
        self.insert(mkp(other));
        true
    }
    fn rebuild(&self) -> Self {
        self.iter().cloned().collect()
    }
    fn serde_roundtrip(&self) -> Option<Result<Self, String>> {
        P::serde_set_roundtrip(self)
    }
}

pub struct EqReport {
    pub found: Vec<(Viol, usize, usize, &'static str, u64)>,
    pub pairs: u64,
    pub equal_pairs: u64,
    pub equal_pairs_different_shape: u64,
    pub strict_prefix_pairs: u64,
    pub per_state_checks: u64,
    pub wall_s: f64,
}

/// variants of the right operand
const VARIANTS: [&str; 3] = ["same-payload", "one-value-differs", "one-representation-differs"];

pub fn run_eq<P: PType, S: EqSide<P>>(states: &[PState<S>], uni: &Universe, threads: usize) -> EqReport {
    let t0 = std::time::Instant::now();
    let threads = threads.max(1);
    // normalised operands and their entry sequences
    let base: Vec<(S, Vec<Obs>)> = states
        .iter()
        .map(|st| {
            let mut m = st.sut.clone();
            m.normalise();
            let e = m.entries();
            (m, e)
        })
        .collect();
    let mut variants: Vec<Vec<Option<(S, Vec<Obs>)>>> = vec![];
    for v in 0..3 {
        variants.push(
            base.iter()
                .map(|(m, _)| {
                    let mut m = m.clone();
                    let changed = match v {
                        0 => true,
                        1 => m.bump_last(),
                        _ => m.flip_first_repr(uni.width),
                    };
                    changed.then(|| {
                        let e = m.entries();
                        (m, e)
                    })
                })
                .collect(),
        );
    }
    let base_ref = &base;
    let variants_ref = &variants;
    type Part = (HashMap<(String, String, String), (Viol, usize, usize, &'static str, u64)>, [u64; 5]);
    let parts: Vec<Part> = std::thread::scope(|s| {
        let mut hs = vec![];
        for t in 0..threads {
            hs.push(s.spawn(move || {
                let mut found: HashMap<(String, String, String), (Viol, usize, usize, &'static str, u64)> = HashMap::new();
                let mut c = [0u64; 5];
                let mut rec = |v: Viol, a: usize, b: usize, var: &'static str| {
                    let sig = (v.prop.to_string(), v.site.clone(), v.cond.clone());
                    match found.get_mut(&sig) {
                        Some(e) => e.4 += 1,
                        None => {
                            found.insert(sig, (v, a, b, var, 1));
                        }
                    }
                };
                let mut ai = t;
                while ai < base_ref.len() {
                    let (a, ea) = &base_ref[ai];
                    // per state: reflexive, clone, rebuild, serde
                    c[4] += 3;
                    #[allow(clippy::eq_op)]
                    if !(a == a) {
                        rec(Viol::new("C19", "PartialEq::eq", "not-reflexive", format!("{:x?}", ea)), ai, ai, "self");
                    }
                    let cl = a.clone();
                    if !(cl == *a) || cl.entries() != *ea {
                        rec(Viol::new("C19", "Clone::clone", "clone-not-equal", format!("{:x?}", ea)), ai, ai, "clone");
                    }
                    let rb = a.rebuild();
                    if !(rb == *a) || !(*a == rb) || rb.entries() != *ea {
                        rec(Viol::new("C19", "FromIterator (rebuild from own entries)", "rebuild-not-equal", format!("{:x?} vs {:x?}", rb.entries(), ea)), ai, ai, "rebuild");
                    }
                    if let Some(r) = a.serde_roundtrip() {
                        c[4] += 1;
                        match r {
                            Ok(back) => {
                                if !(back == *a) || back.entries() != *ea {
                                    rec(Viol::new("C19", "Serialize/Deserialize", "roundtrip-not-equal", format!("{:x?} vs {:x?}", back.entries(), ea)), ai, ai, "serde");
                                }
                            }
                            Err(e) => rec(Viol::new("C19", "Serialize/Deserialize", "roundtrip-failed", e), ai, ai, "serde"),
                        }
                    }
                    for (vi, var) in VARIANTS.iter().enumerate() {
                        for (bi, b) in variants_ref[vi].iter().enumerate() {
                            let Some((b, eb)) = b else { continue };
                            c[0] += 1;
                            let want = ea == eb;
                            if want {
                                c[1] += 1;
                                if ai != bi {
                                    c[2] += 1;
                                }
                            } else if (ea.len() < eb.len() && eb[..ea.len()] == ea[..]) || (eb.len() < ea.len() && ea[..eb.len()] == eb[..]) {
                                c[3] += 1;
                            }
                            let got = a == b;
                            if got != want {
                                let cond = if want { "equal-contents-compare-unequal" } else { "different-contents-compare-equal" };
                                rec(Viol::new("C19", "PartialEq::eq", cond, format!("{:x?} == {:x?} -> {got} ({var})", ea, eb)), ai, bi, var);
                            }
                            #[allow(clippy::nonminimal_bool)]
                            if (a != b) == got {
                                rec(Viol::new("C19", "PartialEq::ne", "ne-is-not-negation-of-eq", format!("{:x?} vs {:x?}", ea, eb)), ai, bi, var);
                            }
                            if (b == a) != got {
                                rec(Viol::new("C19", "PartialEq::eq", "not-symmetric", format!("{:x?} vs {:x?}", ea, eb)), ai, bi, var);
                            }
                        }
                    }
                    ai += threads;
                }
                (found, c)
            }));
        }
        hs.into_iter().map(|h| h.join().expect("eq worker died")).collect()
    });
    let mut all: HashMap<(String, String, String), (Viol, usize, usize, &'static str, u64)> = HashMap::new();
    let mut c = [0u64; 5];
    for (f, pc) in parts {
        for i in 0..5 {
            c[i] += pc[i];
        }
        for (sig, e) in f {
            match all.get_mut(&sig) {
                Some(x) => {
                    let occ = x.4 + e.4;
                    if (states[e.1].hist.len() + states[e.2].hist.len(), e.1, e.2) < (states[x.1].hist.len() + states[x.2].hist.len(), x.1, x.2) {
                        *x = e;
                    }
                    x.4 = occ;
                }
                None => {
                    all.insert(sig, e);
                }
            }
        }
    }
    let mut found: Vec<_> = all.into_values().collect();
    found.sort_by(|x, y| (&x.0, x.1, x.2).cmp(&(&y.0, y.1, y.2)));
    EqReport { found, pairs: c[0], equal_pairs: c[1], equal_pairs_different_shape: c[2], strict_prefix_pairs: c[3], per_state_checks: c[4], wall_s: t0.elapsed().as_secs_f64() }
}
