//! Name -> observer / engine tables, and counterexample replay.

use prefix_trie::{PrefixMap, PrefixSet};
use serde_json::Value;

use crate::arena::KeyOpts;
use crate::explore::{initial, post_check, Observer, St};
use crate::ops::{kind_from_name, Alphabet, Cx, Op};
use crate::ptypes::PType;
use crate::sut::Sut;
use crate::universe::{Embed, Universe};
use crate::viol::{guarded, Viol};
use crate::{dispatch_ptype, obs, obs_set, obs_view};

pub fn map_observers<P: PType>(names: &[String]) -> Vec<(&'static str, Observer<PrefixMap<P, u32>>)> {
    let all: Vec<(&'static str, Observer<PrefixMap<P, u32>>)> = vec![
        ("exact", obs::exact::<P>),
        ("lpm", obs::lpm::<P>),
        ("iters", obs::iters::<P>),
        ("cover", obs::cover::<P>),
        ("children", obs::children::<P>),
        ("views", obs_view::views::<P>),
        ("find", obs_view::find::<P>),
        ("wf", obs_view::wf::<P>),
        ("split_hold", obs_view::split_hold::<P>),
        ("churn", obs_view::churn::<P>),
        ("handles", crate::obs_c20::handles::<P>),
        ("faults", crate::obs_c20::faults::<P>),
        ("clone_indep", obs_view::clone_indep::<P>),
    ];
    names
        .iter()
        .map(|n| *all.iter().find(|(k, _)| k == n).unwrap_or_else(|| panic!("unknown map observer {n}")))
        .collect()
}

pub fn set_observers<P: PType>(names: &[String]) -> Vec<(&'static str, Observer<PrefixSet<P>>)> {
    let all: Vec<(&'static str, Observer<PrefixSet<P>>)> = vec![("lookups", obs_set::lookups::<P>), ("iters", obs_set::iters::<P>), ("views", obs_set::views::<P>)];
    names
        .iter()
        .filter_map(|n| all.iter().find(|(k, _)| k == n).copied())
        .collect()
}

pub fn run_other_engine(name: &str, spec: &Value, idx: usize) -> Value {
    crate::registry_ext::run_engine(name, spec, idx)
}

/// rebuild a state by re-executing a history (no checks)
pub fn rebuild<S: Sut>(uni: &Universe, hist: &[Op], key_opts: KeyOpts) -> Option<St<S>> {
    let cx = Cx { uni, canonical: false, deep: false, deep_find_sides: true };
    let mut st: St<S> = initial(uni, key_opts);
    for op in hist {
        let mut map = st.map.clone();
        let mut model = st.model.clone();
        let tok = (st.depth + 1) * 1000;
        let r = guarded(|| {
            let _ = map.apply(&mut model, st.walk(), *op, tok, &cx);
            post_check(&map, &model, &st, *op, uni, key_opts).1
        });
        let (w, key) = r.ok()??;
        st = St { map, model, walk_cell: std::sync::OnceLock::from(w), width: uni.width, key, depth: st.depth + 1, hist: None, taint: 0 };
    }
    Some(st)
}

/// execute a fixed history with the per-transition oracle on every step and the given observers
/// on the final state (and on the state after every `obs_every`-th step)
pub fn run_history_checked<S: Sut>(uni: &Universe, hist: &[Op], observers: &[(&'static str, Observer<S>)], obs_every: usize) -> (Vec<(Viol, usize, String)>, u64, u64) {
    let key_opts = KeyOpts { reps: false, layout: false, no_free: false };
    let cx = Cx { uni, canonical: false, deep: false, deep_find_sides: true };
    let mut st: St<S> = initial(uni, key_opts);
    let mut out: Vec<(Viol, usize, String)> = vec![];
    let (mut transitions, mut evals) = (0u64, 0u64);
    for (i, op) in hist.iter().enumerate() {
        let mut map = st.map.clone();
        let mut model = st.model.clone();
        let tok = (st.depth + 1) * 1000;
        let r = guarded(|| {
            let mut vs = map.apply(&mut model, st.walk(), *op, tok, &cx);
            let (mut vs2, wk) = post_check(&map, &model, &st, *op, uni, key_opts);
            vs.append(&mut vs2);
            (vs, wk)
        });
        transitions += 1;
        match r {
            Err(msg) => {
                out.push((Viol::new("C20", format!("{:?}", op.kind), "panic", format!("{} panicked: {msg}", op.describe(uni))), i + 1, "transition".into()));
                return (out, transitions, evals);
            }
            Ok((vs, wk)) => {
                for v in vs {
                    out.push((v, i + 1, "transition".into()));
                }
                let Some((w, key)) = wk else { return (out, transitions, evals) };
                st = St { map, model, walk_cell: std::sync::OnceLock::from(w), width: uni.width, key, depth: st.depth + 1, hist: None, taint: 0 };
            }
        }
        if i + 1 == hist.len() || (obs_every > 0 && (i + 1) % obs_every == 0) {
            for (name, f) in observers {
                match guarded(|| f(&st, &cx)) {
                    Ok((vs, n)) => {
                        evals += n;
                        for v in vs {
                            out.push((v, i + 1, format!("observer:{name}")));
                        }
                    }
                    Err(msg) => out.push((Viol::new("C20", format!("observer:{name}"), "panic", msg), i + 1, format!("observer:{name}"))),
                }
            }
        }
    }
    (out, transitions, evals)
}

pub fn ops_from_json(v: &Value) -> Vec<Op> {
    v.as_array().map(|a| a.iter().map(op_from_json).collect()).unwrap_or_default()
}

fn op_from_json(v: &Value) -> Op {
    Op {
        kind: kind_from_name(v["kind"].as_str().unwrap()).expect("op kind"),
        key: v["key_id"].as_u64().unwrap() as u8,
        rep: v["rep"].as_u64().unwrap() as u8,
        arg: v["arg"].as_u64().unwrap() as u32,
    }
}

/// re-execute a recorded explore counterexample; returns the violations observed at the end
fn replay_explore<S: Sut>(uni: &Universe, hist: &[Op], at: &str, alpha: Alphabet, key_opts: KeyOpts, observers: &[(&'static str, Observer<S>)], deep: bool) -> Vec<Viol> {
    let cx = Cx { uni, canonical: alpha == Alphabet::Canonical, deep, deep_find_sides: true };
    let mut st: St<S> = initial(uni, key_opts);
    let mut out = vec![];
    for (i, op) in hist.iter().enumerate() {
        let last = i + 1 == hist.len() && at == "transition";
        let mut map = st.map.clone();
        let mut model = st.model.clone();
        let tok = (st.depth + 1) * 1000;
        let r = guarded(|| {
            let mut vs = map.apply(&mut model, st.walk(), *op, tok, &cx);
            let (mut vs2, wk) = post_check(&map, &model, &st, *op, uni, key_opts);
            vs.append(&mut vs2);
            (vs, wk)
        });
        match r {
            Err(msg) => {
                out.push(Viol::new("C20", format!("{:?}", op.kind), "panic", format!("{} panicked: {msg}", op.describe(uni))));
                return out;
            }
            Ok((vs, wk)) => {
                if last {
                    out.extend(vs);
                    return out;
                }
                let Some((w, key)) = wk else {
                    out.extend(vs);
                    return out;
                };
                st = St { map, model, walk_cell: std::sync::OnceLock::from(w), width: uni.width, key, depth: st.depth + 1, hist: None, taint: 0 };
            }
        }
    }
    if let Some(name) = at.strip_prefix("observer:") {
        if let Some((_, f)) = observers.iter().find(|(n, _)| *n == name) {
            match guarded(|| f(&st, &cx)) {
                Ok((vs, _)) => out.extend(vs),
                Err(msg) => out.push(Viol::new("C20", at.to_string(), "panic", msg)),
            }
        }
    }
    out
}

fn replay_typed<P: PType>(rp: &Value) -> Vec<Viol> {
    let spec = &rp["spec"];
    let embed = match spec["embed"].as_str() {
        Some("lo") => Embed::Lo,
        Some("mid") => Embed::Mid,
        _ => Embed::Hi,
    };
    let uni = Universe::new(spec["universe"].as_str().unwrap_or("U2"), embed, P::WIDTH);
    let hist: Vec<Op> = rp["history"].as_array().map(|a| a.iter().map(op_from_json).collect()).unwrap_or_default();
    let at = rp["at"].as_str().unwrap_or("transition");
    let alpha = match spec["alpha"].as_str() {
        Some("structural") => Alphabet::Structural,
        Some("canonical") => Alphabet::Canonical,
        Some("repr") => Alphabet::Repr,
        _ => Alphabet::Full,
    };
    let key_opts = KeyOpts { reps: spec["reps"].as_bool().unwrap_or(false), layout: spec["layout"].as_bool().unwrap_or(false), no_free: spec["no_free"].as_bool().unwrap_or(false) };
    let deep = spec["deep"].as_bool().unwrap_or(false);
    let names: Vec<String> = at.strip_prefix("observer:").map(|n| vec![n.to_string()]).unwrap_or_default();
    if spec["kind"].as_str() == Some("set") {
        replay_explore::<PrefixSet<P>>(&uni, &hist, at, alpha, key_opts, &set_observers::<P>(&names), deep)
    } else {
        replay_explore::<PrefixMap<P, u32>>(&uni, &hist, at, alpha, key_opts, &map_observers::<P>(&names), deep)
    }
}

/// `vh replay <file>`: exit code 1 (and a VIOLATION line) if the recorded violation reproduces on
/// the current tree, 0 if it does not, 2 on a machinery problem (including non-determinism).
pub fn replay(path: &str) -> i32 {
    let rp: Value = match std::fs::read_to_string(path).ok().and_then(|s| serde_json::from_str(&s).ok()) {
        Some(v) => v,
        None => {
            println!("MACHINERY-ERROR cannot read replay file {path}");
            return 2;
        }
    };
    let engine = rp["spec"]["engine"].as_str().unwrap_or("explore").to_string();
    if engine != "explore" {
        return crate::registry_ext::replay_other(&engine, &rp, path);
    }
    let ptype = rp["spec"]["ptype"].as_str().unwrap_or("u8").to_string();
    let run = || -> Vec<Viol> { dispatch_ptype!(ptype.as_str(), replay_typed(&rp)) };
    let a = run();
    let b = run();
    if a != b {
        println!("MACHINERY-ERROR replay is not deterministic");
        return 2;
    }
    let (prop, site, cond) = (rp["property"].as_str().unwrap_or(""), rp["site"].as_str().unwrap_or(""), rp["cond"].as_str().unwrap_or(""));
    for v in &a {
        println!("observed: {} {} {} :: {}", v.prop, v.site, v.cond, v.detail);
    }
    if a.iter().any(|v| (v.prop == prop || (cond == "panic" && v.prop == "C20")) && v.site == site && v.cond == cond) {
        println!("VIOLATION property={prop} replay={path}");
        1
    } else {
        println!("not reproduced: property={prop} site={site} cond={cond}");
        0
    }
}
