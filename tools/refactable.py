#!/usr/bin/env python3
import glob, json
rows=[]
for p in sorted(glob.glob('/verif/refactorings/*/meta.json')):
    m=json.load(open(p))
    first=''
    try:
        first=next(l.strip('# ').strip() for l in open(p.replace('meta.json','notes.md')) if l.strip())
    except Exception: pass
    rows.append((m['id'], 'yes' if m.get('applies') and m.get('builds_with_hooks') and m.get('baseline_150') else 'NO', str(len(m.get('checks',{}))), ', '.join(m.get('alarms',[])) or 'none', first[:150].replace('|','/')))
out=["# Behaviour-preserving refactorings: do the checks stay silent?","",
"Written by independent sub-agents that were given the 20 property statements and asked for non-trivial internal rewrites that keep all of them true.",
"Each was applied in a scratch worktree (build with hooks, 150 baseline tests) and then all 20 quick checks were run against it.","",
"| id | confirmed | checks run | alarms | what it changes |","|---|---|---|---|---|"]
out+=["| "+" | ".join(r)+" |" for r in rows]
open('/verif/refactorings/RESULTS.md','w').write("\n".join(out)+"\n")
print("\n".join(out[-len(rows):]))
