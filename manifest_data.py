"""Texts for MANIFEST.json (one entry per property that has a plan in plans.py)."""

E1 = "E1-explore"
E2 = "E2-pairs"
TB = ("Trusted: rustc/std, the reference model (harness/src/model.rs, ~150 lines over BTreeMap), the hook dump (cargo feature verif-hooks), "
      "and the state-key abstraction (value contents, slot numbers, free-list order dropped; arguments in DESIGN.md 2.2). "
      "Completeness is relative to the key universes: all prefixes of length <= 2 embedded at the top (hi) and at the bottom (lo, incl. full-length prefixes and the real /0) "
      "of every shipped prefix type in the quick tier; length <= 3 (2.4 M shapes) and a depth-5 comb in the thorough tier. "
      "A defect that needs four levels of bushy non-canonical structure is outside the bound.")
BFS = "explicit-state BFS to fixpoint over the real implementation (clone-and-apply), canonical state key from the arena hook, reference-model oracle"
PAIRS = "exhaustive enumeration of ordered pairs of reachable states x pairs of view roots, set-comprehension oracle over two reference models"


def c(engine, technique, ref, text, note=TB):
    return {"engine": engine, "technique": technique, "design_ref": ref, "text": text, "note": note}


CHECKS = {
    "C01": c(E1, BFS + "; every transition's return value and the full iteration compared; every exact-match observer for every query in both host-bit representations",
             "DESIGN.md 3 (C01), 2.1-2.3",
             "Every state reachable by ANY finite history of the full public mutator alphabet over the key universe is visited (breadth-first search to fixpoint on the real data structure, maps and sets, all 14 prefix types, hi and lo embeddings). "
             "On every transition the call's return value and the complete iteration are compared with an abstract ordered map; in every state get/get_mut/get_key_value/contains_key/Entry::get/key (set: contains/get) are compared for every query of the query universe."),
    "C02": c(E1, BFS + "; get_lpm / get_lpm_prefix / get_lpm_mut / set get_lpm compared with max-by-length over the model for every query",
             "DESIGN.md 3 (C02)",
             "All reachable tree shapes (including every placement of value-less leftover nodes) x all queries (stored, absent, ancestors, one-bit extensions, /0, full-length, both representations): the answer must equal the longest covering entry of the shape-blind model, for maps and sets and all prefix types."),
    "C03": c(E1, BFS + "; every iterator kind drained with a step cap, compared with the model's ordered entry list; clones at every position; fusedness",
             "DESIGN.md 3 (C03)",
             "For every reachable shape: iter, keys, values, iter_mut, values_mut, into_iter, into_keys, into_values, &map/&set/set iteration and clones of every Clone iterator taken at every position yield exactly the model's entries in lexicographic order and then keep returning None."),
    "C04": c(E1, BFS + "; len()/is_empty()/cached counter vs model and vs number of valued reachable nodes, checked on EVERY transition (before duplicate detection)",
             "DESIGN.md 3 (C04)",
             "Every transition of the complete mutator alphabet (map methods, every Entry path incl. OccupiedEntry::remove, mutable-view set/remove through eight navigation paths, clone, collect) from every reachable state: len() == model size == iter().count() == number of valued nodes in the arena."),
    "C05": c(E2, PAIRS + " (union, union_mut: item list, order, tags, values)",
             "DESIGN.md 3 (C05-C07)",
             "Union and union_mut are evaluated on every ordered pair of U2 shapes (whole-map views), on canonical x all and all x canonical shapes with every pair of view roots (stored, branching, virtual; equal, nested, disjoint), with a PrefixSet on the right, and on canonical x canonical pairs for the other prefix types and the lo embedding; the item sequence must equal the set comprehension over the two models."),
    "C06": c(E2, PAIRS + " (intersection, intersection_mut) plus same-map disjoint views",
             "DESIGN.md 3 (C05-C07)",
             "Same pair space as C05; intersection(_mut) must yield exactly the prefixes stored in both views with both values. Disjoint sub-views of the same map (every pair of roots, and every pair of mutable views from recursive split) must have an empty intersection."),
    "C07": c(E2, PAIRS + " (difference, covering_difference and the _mut twins)",
             "DESIGN.md 3 (C05-C07)",
             "Same pair space as C05; difference = entries of a whose prefix is not stored in b, covering_difference = entries of a not covered by any prefix of b (b empty, b holding /0, b's root below or beside a's root are ordinary members of the pair space)."),
    "C08": c(E2, PAIRS + " (every Left.right / Right.left / UnionItem::left()/right() / DifferenceItem.right / DifferenceMutItem.right compared with the LPM over the other view's model entries)",
             "DESIGN.md 3 (C08)",
             "Every LPM annotation produced by union / difference / difference_mut on the whole pair space of C05, in particular for all pairs of DIFFERENT view roots (nested, disjoint, virtual), which is where the seeding defect lived."),
    "C09": c(E1, BFS + "; cover / cover_keys / cover_values / get_spm / get_spm_prefix / set cover+get_spm vs the model's covering entries sorted by length",
             "DESIGN.md 3 (C09)",
             "All reachable shapes (value-less nodes anywhere on the path) x all queries: the cover list, its first element (spm) and its last (lpm)."),
    "C10": c(E1, BFS + "; children/children_mut/into_children for every selector; remove_children and retain with EVERY keep-subset as transitions; predicate call counting",
             "DESIGN.md 3 (C10)",
             "Selectors: stored, branching, on an edge, absent, /0, full-length, host bits. retain is a transition for every keep-subset of the stored entries of every state (predicate must be called exactly once per entry); remove_children / into_children for every key; the BFS continues from every post-removal state, so slot reuse after bulk removal is explored."),
    "C11": c(E1, BFS + "; view_at/view_mut_at for every query, recursive left/right/split/has_left/has_right; separate canonical-alphabet exploration for the 'exists iff non-empty' clause",
             "DESIGN.md 3 (C11)",
             "For every state and query: None only if the model has nothing under q; prefix, value, iter/keys/values = entries under q; recursively for every side view. A second exploration restricted to insert/remove/retain/clear/collect checks that views and sides exist exactly when non-empty."),
    "C12": c(E1, BFS + "; find/find_exact/find_lpm/view_at from EVERY view root (stored, branching, virtual) x every query (inside, covering, disjoint), mutable twins incl. the view handed back on failure",
             "DESIGN.md 3 (C12)",
             "Per state: every view obtainable by view_at over the query universe x every query x both representations; results are judged on the entries of the returned view (restriction of the model), positions for find_exact/find_lpm."),
    "C13": c(E1 + " + " + E2, BFS + " with all value-only operations as transitions (all references held at once, distinct writes, full comparison, shape key unchanged) + pair engine for the *_mut set operations + same-map split views + hold-all bodies of E7 run natively",
             "DESIGN.md 3 (C13)",
             "iter_mut, values_mut, children_mut, get_mut, get_lpm_mut, view value_mut/prefix_value_mut/iter_mut/values_mut/into_iter are transitions whose yielded sequence must equal the read-only order and whose successor must have the identical state key; union_mut/intersection_mut/difference_mut/covering_difference_mut on the pair space of C05 with writes through every reference and a full comparison of both maps."),
    "C14": c("E1 + E2 + E4-sched + E5-programs + E7-alias", "four deciders: every small map x view root x mutable traversal / pair of maps x *_mut set operation executed by the Miri interpreter with all references held and re-written before every further library call (aliasing model as per-execution oracle over an exhaustively enumerated case list); address-distinctness of all simultaneously live &mut (explorer, pair engine); shuttle DFS over ALL interleavings of workers on disjoint views with a scheduling point at every arena node write; bounded program grammar with rustc as oracle",
             "DESIGN.md 3 (C14)",
             "(0) 128 maps over the prefixes of length <= 2 (three construction modes) x 9 roots x 12 bodies and 64 x 64 pairs of maps over 6 prefixes x 4 *_mut set operations x 4 root pairs x 4 construction policies (7 040 cases quick, 220 800 thorough): no undefined behaviour under Stacked Borrows (thorough: the quick list under Tree Borrows as well), addresses of held references pairwise distinct, while every reference obtained so far stays in use. (1) every mutable traversal of every state / pair holds all references at once: addresses pairwise distinct, views from recursive split pairwise disjoint. (2) for every U2 shape and 2-3 disjoint mutable views (split, nested split, union_mut over two of three) every interleaving at node-write granularity is executed on the real code under shuttle's DFS scheduler: final map = sequential result, per-worker footprints disjoint. (3) 352 client programs (aliasing borrow patterns, consumed views, thread crossing, auto-trait matrix for Rc/Cell/MutexGuard values) must be rejected by rustc while their controls compile.",
             TB + " Clause 2 is complete only at node-write granularity given footprint disjointness (which is checked on every schedule); clause 3 covers the listed grammar, not all safe Rust; rustc and shuttle's scheduler are trusted. Clause 0 is bounded by its universe and judged by the (experimental) aliasing models of the pinned nightly Miri, which is trusted."),
    "C15": c(E1, BFS + "; structural invariants on the arena dump after every transition; recursive walk through the public view API per state tied to the dump; canonical-alphabet exploration compared with freshly built maps",
             "DESIGN.md 3 (C15)",
             "(a) every transition of the full alphabet: root is /0, children strictly longer / covered / on the side of their bit, no sharing, depth bounded. (b) exploration restricted to the canonical sub-alphabet: exactly 2^|K| shapes, each identical to a map freshly built (two insertion orders) from the surviving keys, value-less non-root nodes have two children. (c) remove_keep_tree, entry and view value operations leave the node set and links unchanged."),
    "C16": c(E1, BFS + "; partition invariant (reachable + free = all slots, no duplicates) and allocation discipline on every transition via the hook; churn cycles per state",
             "DESIGN.md 3 (C16)",
             "Every transition of every exploration: each slot is in the tree xor on the free list; the arena only grows when the free list is empty; clear resets it. Per state: one- and two-key insert/remove toggling and remove_children/retain cycles run 12/8 rounds with equal arena size after round 2 and the last; a canonical map emptied by remove keeps only the root."),
    "C17": c("E3-algebra", "exhaustive enumeration of the input space against a bit-by-bit u128 reference (stateless: no state-space search)",
             "DESIGN.md 3 (C17)",
             "8-bit tuples: all 2304 values and all 5.3 M ordered pairs; other 13 types: all length pairs x position of the first differing bit x head patterns x host-bit patterns (up to 29 M pairs), all bit indices 0..=255, overrides vs the trait's default bodies through a newtype; a seeded random supplement is reported separately.",
             "Trusted: the reference functions in harness/src/model.rs; wider types are covered structurally (boundary-biased), not for all 2^128 addresses."),
    "C18": c(E1 + " + " + E2, BFS + " with the representation of EVERY node in the state key and every operation issued in both representations; pair engine with representation A on the left and B on the right",
             "DESIGN.md 3 (C18)",
             "Every combination (stored A|B) x (operation or query A|B) on U2; the model records the representation of the last inserting call (and the node's prefix for view set on a value-less node); every prefix-returning observer must return it; set-operation items must carry the representation of the side that stores them."),
    "C19": c(E2, "all ordered pairs of reachable states in three payload variants (same / one value differs / one representation differs), == vs entry-sequence equality; clone / rebuild / serde round trip per state; clone independence under the full alphabet",
             "DESIGN.md 3 (C19)",
             "3.2 M map pairs and 2.2 M set pairs per type/embedding incl. the empty map, strict-prefix pairs and equal contents in different shapes; reflexivity, symmetry, != consistency; clone(), collect() and serde_json round trips (ipnet keys) compare equal; every operation applied to a clone leaves the original's arena bit-identical."),
    "C20": c("E1 + E2 + E3 (+E6 fault enumeration)", BFS + " with every library call under catch_unwind (overflow checks + debug assertions; plain release build in the thorough tier), handle-level call sequences, panic injection at every callback invocation index, step caps and pending-call watchdog",
             "DESIGN.md 3 (C20)",
             "(a) every call of every engine on hi and lo embeddings of all 14 types (boundary lengths, 8/16/128-bit representations) must return; (b) all sequences of <= 2 (thorough: 3) non-consuming calls + one consuming call on Entry/VacantEntry/OccupiedEntry and TrieViewMut handles; (c) retain with every keep-subset and a panic at every predicate invocation index, panicking or_insert_with / insert_with / and_modify closures and Default impls: the map must stay well-formed, size-consistent and hold exactly the expected entries."),
}

NOT_APPLICABLE = {}

ENGINES = [
    {"name": "E1-explore", "path": "harness/src/explore.rs", "serves_properties": ["C01", "C02", "C03", "C04", "C09", "C10", "C11", "C12", "C13", "C14", "C15", "C16", "C18", "C19", "C20"],
     "kind_free_text": "hand-rolled layered explicit-state BFS over the real PrefixMap/PrefixSet (clone-and-apply), canonical state key from the verification hook, per-transition and per-state oracles against a reference model, deterministic merge, caps reported"},
    {"name": "E2-pairs", "path": "harness/src/pairs.rs, harness/src/pairs2.rs", "serves_properties": ["C05", "C06", "C07", "C08", "C13", "C14", "C18", "C19", "C20"],
     "kind_free_text": "exhaustive pair enumeration over the reachable-state sets produced by E1: set operations on two maps / map+set / two views of one map, equality"},
    {"name": "E3-algebra", "path": "harness/src/algebra.rs", "serves_properties": ["C17", "C20"], "kind_free_text": "exhaustive/structured enumeration of prefix values and pairs for all 14 prefix types"},
    {"name": "E4-sched", "path": "sched/src/main.rs", "serves_properties": ["C14"], "kind_free_text": "shuttle DFS scheduler over worker threads on disjoint mutable views; the access hook turns every node write into a scheduling point"},
    {"name": "E5-programs", "path": "programs.py", "serves_properties": ["C14"], "kind_free_text": "bounded grammar of client programs compiled with rustc against the freshly built rlib; reject/accept oracle with controls"},
    {"name": "E7-alias", "path": "alias.py, alias/src/main.rs", "serves_properties": ["C13", "C14"], "kind_free_text": "exhaustive case list (small maps x view roots x mutable traversals, pairs x *_mut set operations) of bodies that hold every reference and keep writing through it; executed natively with a functional oracle (C13) and by cargo +nightly miri with Stacked/Tree Borrows as aliasing oracle (C14); no hooks"},
]

NOTES = ("All checks rebuild the harness against /repo's working tree (path dependency with feature verif-hooks). "
         "Exit 2 / MACHINERY-ERROR is never a verdict. Known findings live in KNOWN_FINDINGS.txt (nine upstream defects, all repaired by fix: commits). "
         "seeded/ holds independently written property-breaking changes with the checks that catch them.")
