//! [E1] explicit-state, layered breadth-first exploration of the real `PrefixMap<P, u32>` to
//! fixpoint, with per-transition oracles and per-state observer suites.

use std::collections::{BTreeMap, HashMap};
use std::sync::Arc;
use std::time::Instant;

use crate::arena::{is_canonical, shape_key, state_key, walk, KeyOpts, Walk};
use crate::model::{norm, Model, Obs};
use crate::ops::{Alphabet, Cx, Op, K};
use crate::sut::Sut;
use crate::universe::Universe;
use crate::viol::{guarded, pending_begin, pending_end, Viol};

pub use crate::viol::PendingInfo;

pub struct St<S: Sut> {
    pub map: S,
    pub model: Model,
    /// walk of the arena, computed on first use (not kept for the millions of frontier states)
    pub walk_cell: std::sync::OnceLock<Walk>,
    pub width: u8,
    pub key: Box<[u8]>,
    pub depth: u32,
    /// the operation sequence that produced this state (shared linked list)
    pub hist: Option<Arc<HistNode>>,
    /// 0 = sane; n > 0 = n transitions after a structural / counter violation (explored up to a horizon
    /// so that the downstream effects on the other properties become visible)
    pub taint: u8,
}

impl<S: Sut> St<S> {
    pub fn walk(&self) -> &Walk {
        self.walk_cell.get_or_init(|| walk(&self.map.dump(), self.width).0)
    }
}

pub struct HistNode {
    pub op: Op,
    pub parent: Option<Arc<HistNode>>,
}

pub fn history_of(h: &Option<Arc<HistNode>>) -> Vec<Op> {
    let mut v = vec![];
    let mut cur = h.as_ref();
    while let Some(n) = cur {
        v.push(n.op);
        cur = n.parent.as_ref();
    }
    v.reverse();
    v
}

/// a per-state observer suite: returns violations and the number of evaluations it performed
pub type Observer<S> = fn(&St<S>, &Cx) -> (Vec<Viol>, u64);

#[derive(Clone)]
pub struct Config {
    pub alpha: Alphabet,
    pub key_opts: KeyOpts,
    /// representation of the key arguments of operations: 0 = host bits zero, 1 = host bits set, 2 = both
    pub rep_mode: u8,
    pub retain_all_subsets: bool,
    pub threads: usize,
    pub max_states: usize,
    pub max_wall_s: f64,
    /// stop at the end of the first layer in which a violation of one of these properties occurs
    pub stop_props: Vec<String>,
    /// signatures (prop, site, cond) of open known findings: successor is pruned
    pub known: Vec<(String, String, String)>,
    /// worker slot offset for the pending-call watchdog
    pub worker_base: usize,
    pub deep: bool,
    /// label of the run (type, universe, alphabet) for reports and stall messages
    pub run_label: String,
}

#[derive(Clone, Debug)]
pub struct Found {
    pub viol: Viol,
    pub history: Vec<Op>,
    /// the operation or observer at which it was observed
    pub at: String,
    pub occurrences: u64,
}

#[derive(Clone, Debug, Default)]
pub struct Report {
    pub run: String,
    pub states: u64,
    pub shape_states: u64,
    pub canonical_states: u64,
    pub transitions: u64,
    pub self_loops: u64,
    pub layers: u32,
    pub observer_evals: u64,
    pub found: Vec<Found>,
    pub known_hits: BTreeMap<String, u64>,
    pub pruned: u64,
    pub op_counts: BTreeMap<String, u64>,
    pub exhaustive: bool,
    pub cap_hit: Option<String>,
    pub digest: u64,
    pub wall_s: f64,
    pub samples: Vec<String>,
    pub max_arena_len: usize,
}

/// resident set size of this process in GB (0 if unknown)
pub fn rss_gb() -> f64 {
    std::fs::read_to_string("/proc/self/statm")
        .ok()
        .and_then(|s| s.split_whitespace().nth(1).and_then(|x| x.parse::<f64>().ok()))
        .map(|pages| pages * 4096.0 / 1e9)
        .unwrap_or(0.0)
}

fn fnv(h: &mut u64, bytes: &[u8]) {
    for b in bytes {
        *h ^= *b as u64;
        *h = h.wrapping_mul(0x100000001b3);
    }
}

/// compare an observed entry sequence with the model's; classify the mismatch
pub fn compare_entries(site: &str, got: &[Obs], want: &[Obs]) -> Option<Viol> {
    if got == want {
        return None;
    }
    let nk = |v: &[Obs]| -> Vec<((u128, u8), u32)> { v.iter().map(|o| (norm((o.0, o.1)), o.2)).collect() };
    let (g, w) = (nk(got), nk(want));
    if g == w {
        return Some(Viol::new("C18", site, "stored-representation", format!("{site}: representations differ: got {:x?}, model {:x?}", got, want)));
    }
    let mut gs = g.clone();
    gs.sort();
    let mut ws = w.clone();
    ws.sort();
    if gs == ws {
        return Some(Viol::new("C03", site, "iteration-order", format!("{site}: same entries in a different order: got {:x?}, model {:x?}", got, want)));
    }
    let mut gd = gs.clone();
    gd.dedup();
    if gd.len() != gs.len() && gd == ws {
        return Some(Viol::new("C03", site, "entry-yielded-twice", format!("{site}: got {:x?}, model {:x?}", got, want)));
    }
    Some(Viol::new("C01", site, "contents", format!("{site}: got {:x?}, model {:x?}", got, want)))
}

/// T0: everything that is checked after every single transition
pub fn post_check<S: Sut>(map: &S, model: &Model, before: &St<S>, op: Op, uni: &Universe, key_opts: KeyOpts) -> (Vec<Viol>, Option<(Walk, Box<[u8]>)>) {
    let mut out = vec![];
    let d = map.dump();
    let (w, mut vs, fatal) = walk(&d, uni.width);
    out.append(&mut vs);
    // C04
    let n = map.len();
    if n != model.len() {
        out.push(Viol::new("C04", S::LEN_SITE, "len-vs-model", format!("len()={} model has {} entries", n, model.len())));
    }
    if map.is_empty() != (model.len() == 0) {
        out.push(Viol::new("C04", S::IS_EMPTY_SITE, "is_empty-vs-model", format!("is_empty()={} model has {} entries", map.is_empty(), model.len())));
    }
    // C01/C03/C18: contents (the iteration is capped, so this is safe even on a cyclic structure)
    let got = map.entries();
    if n != got.len() && n == model.len() {
        out.push(Viol::new("C04", S::LEN_SITE, "len-vs-iter-count", format!("len()={} iter().count()={}", n, got.len())));
    }
    if let Some(v) = compare_entries(S::ITER_SITE, &got, &model.entries()) {
        out.push(v);
    }
    if fatal {
        // the node table is not a tree any more: do the mutable traversals hand out aliasing references?
        if let Some(v) = map.alias_probe() {
            out.push(v);
        }
        return (out, None);
    }
    // C16 allocation discipline
    if d.arena_len > before.walk().arena_len && !d.free.is_empty() {
        out.push(Viol::new("C16", "arena", "grew-with-free-slots", format!("arena grew {} -> {} although {} slots are free afterwards", before.walk().arena_len, d.arena_len, d.free.len())));
    }
    // (clear() may keep its slots as long as they are all on the free list: the partition check above covers it)
    let _ = K::Clear;
    let key = state_key(&w, &d, uni, key_opts);
    // C15(c) / C13: shape preservation
    if op.shape_preserving() {
        let sb = shape_key(before.walk(), uni);
        let sa = shape_key(&w, uni);
        // a value may appear / disappear: compare without the value flag
        let strip = |k: &[u8]| -> Vec<u8> {
            // flags follow every id byte (ids < 250 are single bytes; escape 255 is followed by 17 bytes)
            let mut o = vec![];
            let mut i = 0;
            while i < k.len() {
                if k[i] == 255 {
                    o.extend_from_slice(&k[i..i + 18]);
                    i += 18;
                } else {
                    o.push(k[i]);
                    i += 1;
                }
                o.push(k[i] & !1);
                i += 1;
            }
            o
        };
        if strip(&sb) != strip(&sa) {
            let prop = if op.value_only() { "C13" } else { "C15" };
            out.push(Viol::new(prop, format!("{:?}", op.kind), "shape-changed", "a shape-preserving operation changed the node set or the links".to_string()));
        } else if op.value_only() && sb != sa {
            out.push(Viol::new("C13", format!("{:?}", op.kind), "stored-prefixes-changed", "a value-only operation changed which nodes hold a value".to_string()));
        }
    }
    (out, Some((w, key)))
}

/// a candidate successor: only the key is kept while a layer is expanded; the state itself is
/// re-computed (clone of the parent + the same operation) for the one winner per key
struct Cand {
    parent: u32,
    /// index of the parent in the current frontier
    fidx: u32,
    op_idx: u32,
    op: Op,
    key: Box<[u8]>,
    taint: u8,
}

type Sig = (String, String, String);

/// how many transitions a state tainted by a structural / counter violation is followed
pub const TAINT_HORIZON: u8 = 3;
/// at most this many tainted states are followed per run (in deterministic order)
pub const MAX_TAINTED_STATES: usize = 8_000;

struct Partial<S: Sut> {
    _s: std::marker::PhantomData<S>,
    cands: Vec<Cand>,
    /// per signature: occurrences and the least (history length, history) witness
    viols: HashMap<Sig, (u64, Found)>,
    transitions: u64,
    self_loops: u64,
    observer_evals: u64,
    op_counts: BTreeMap<String, u64>,
    pruned: u64,
    known_hits: BTreeMap<String, u64>,
    max_arena_len: usize,
}

impl<S: Sut> Partial<S> {
    fn new() -> Self {
        Partial {
            _s: std::marker::PhantomData,
            cands: vec![],
            viols: HashMap::new(),
            transitions: 0,
            self_loops: 0,
            observer_evals: 0,
            op_counts: BTreeMap::new(),
            pruned: 0,
            known_hits: BTreeMap::new(),
            max_arena_len: 0,
        }
    }
    fn record(&mut self, v: Viol, st: &St<S>, op: Option<Op>, at: &str) {
        let sig = (v.prop.to_string(), v.site.clone(), v.cond.clone());
        match self.viols.get_mut(&sig) {
            Some(e) => {
                e.0 += 1;
                let len = st.depth as usize + op.is_some() as usize;
                if len < e.1.history.len() {
                    let mut h = history_of(&st.hist);
                    h.extend(op);
                    e.1 = Found { viol: v, history: h, at: at.to_string(), occurrences: 0 };
                }
            }
            None => {
                let mut h = history_of(&st.hist);
                h.extend(op);
                self.viols.insert(sig, (1, Found { viol: v, history: h, at: at.to_string(), occurrences: 0 }));
            }
        }
    }
}

pub fn initial<S: Sut>(uni: &Universe, key_opts: KeyOpts) -> St<S> {
    let map: S = S::new_empty();
    let d = map.dump();
    let (w, _, _) = walk(&d, uni.width);
    let key = state_key(&w, &d, uni, key_opts);
    St {
        map,
        model: Model::new(),
        walk_cell: std::sync::OnceLock::from(w),
        width: uni.width,
        key,
        depth: 0,
        hist: None,
        taint: 0,
    }
}

/// a library call that panics falsifies C20 and, because it does not return the model's answer,
/// also the property under check
fn panic_props(cfg: &Config) -> Vec<&'static str> {
    const ALL: [&str; 20] = ["C01", "C02", "C03", "C04", "C05", "C06", "C07", "C08", "C09", "C10", "C11", "C12", "C13", "C14", "C15", "C16", "C17", "C18", "C19", "C20"];
    let mut v: Vec<&'static str> = vec!["C20"];
    for p in &cfg.stop_props {
        if let Some(s) = ALL.iter().find(|a| **a == p.as_str()) {
            if *s != "C20" {
                v.push(s);
            }
        }
    }
    v
}

fn is_known(cfg: &Config, v: &Viol) -> bool {
    cfg.known.iter().any(|(p, s, c)| p == v.prop && *s == v.site && *c == v.cond)
}

#[allow(clippy::too_many_arguments)]
fn expand<S: Sut>(
    id: u32,
    fidx: u32,
    st: &St<S>,
    cfg: &Config,
    uni: &Universe,
    observers: &[(&'static str, Observer<S>)],
    visited: &HashMap<Box<[u8]>, u32>,
    local_new: &mut HashMap<Box<[u8]>, usize>,
    part: &mut Partial<S>,
    worker: usize,
) {
    let cx = Cx { uni, canonical: cfg.alpha == Alphabet::Canonical, deep: cfg.deep, deep_find_sides: true };
    // per-state observers
    for (name, f) in observers {
        pending_begin(worker, PendingInfo { run: cfg.run_label.clone(), hist: st.hist.clone(), op: None, at: name });
        let r = guarded(|| f(st, &cx));
        pending_end(worker);
        let at = format!("observer:{name}");
        match r {
            Ok((vs, n)) => {
                part.observer_evals += n;
                for v in vs {
                    if is_known(cfg, &v) {
                        *part.known_hits.entry(format!("{} {} {}", v.prop, v.site, v.cond)).or_default() += 1;
                    } else {
                        part.record(v, st, None, &at);
                    }
                }
            }
            Err(msg) => {
                for p in panic_props(cfg) {
                    part.record(Viol::new(p, at.clone(), "panic", msg.clone()), st, None, &at);
                }
            }
        }
    }
    // tainted states (after a structural / counter violation) are followed with the reduced alphabet only
    let alpha = if st.taint > 0 && cfg.alpha == Alphabet::Full { Alphabet::Structural } else { cfg.alpha };
    let ops = S::enumerate_ops(uni, &st.model, alpha, if st.taint > 0 { cfg.rep_mode.min(1) } else { cfg.rep_mode }, cfg.retain_all_subsets && st.taint == 0);
    for (op_idx, op) in ops.iter().enumerate() {
        let op = *op;
        let mut map = st.map.clone();
        let mut model = st.model.clone();
        let tok = (st.depth + 1) * 1000;
        pending_begin(worker, PendingInfo { run: cfg.run_label.clone(), hist: st.hist.clone(), op: Some(op), at: "transition" });
        let r = guarded(|| {
            let vs = map.apply(&mut model, st.walk(), op, tok, &cx);
            let (mut vs2, wk) = post_check(&map, &model, st, op, uni, cfg.key_opts);
            let mut all = vs;
            all.append(&mut vs2);
            (all, wk)
        });
        pending_end(worker);
        part.transitions += 1;
        *part.op_counts.entry(format!("{:?}", op.kind)).or_default() += 1;
        match r {
            Err(msg) => {
                // the map may be in an arbitrary state: do not expand it
                for p in panic_props(cfg) {
                    part.record(Viol::new(p, format!("{:?}", op.kind), "panic", format!("{} panicked: {msg}", op.describe(uni))), st, Some(op), "transition");
                }
                part.pruned += 1;
            }
            Ok((vs, wk)) => {
                let mut prune = false;
                let mut tainted_now = false;
                for v in vs {
                    if is_known(cfg, &v) {
                        *part.known_hits.entry(format!("{} {} {}", v.prop, v.site, v.cond)).or_default() += 1;
                        prune = true;
                    } else {
                        // a broken structure or drifted counter taints every successor
                        if v.prop == "C15" || v.prop == "C16" || v.prop == "C04" {
                            tainted_now = true;
                        }
                        part.record(v, st, Some(op), "transition");
                    }
                }
                let Some((w, key)) = wk else {
                    part.pruned += 1;
                    continue;
                };
                part.max_arena_len = part.max_arena_len.max(w.arena_len);
                let taint: u8 = if st.taint > 0 {
                    st.taint + 1
                } else if tainted_now {
                    1
                } else {
                    0
                };
                if prune || taint > TAINT_HORIZON {
                    part.pruned += 1;
                    continue;
                }
                // tainted states are kept apart from the sane state of the same shape
                let key: Box<[u8]> = if taint > 0 {
                    let mut k = key.into_vec();
                    k.push(0xEE);
                    k.push(w.count as u8);
                    k.extend(w.free.iter().map(|f| *f as u8));
                    k.into_boxed_slice()
                } else {
                    key
                };
                if key == st.key {
                    part.self_loops += 1;
                    continue;
                }
                if visited.contains_key(&key) {
                    continue;
                }
                drop((map, model, w));
                if let Some(&ci) = local_new.get(&key) {
                    // keep the least (parent, op_idx)
                    let c = &part.cands[ci];
                    if (c.parent, c.op_idx) <= (id, op_idx as u32) {
                        continue;
                    }
                    part.cands[ci] = Cand { parent: id, fidx, op_idx: op_idx as u32, op, key, taint };
                    continue;
                }
                local_new.insert(key.clone(), part.cands.len());
                part.cands.push(Cand { parent: id, fidx, op_idx: op_idx as u32, op, key, taint });
            }
        }
    }
}

pub fn explore<S: Sut>(uni: &Universe, cfg: &Config, observers: &[(&'static str, Observer<S>)]) -> Report {
    explore_collect(uni, cfg, observers, None)
}

/// like `explore`, optionally handing back every state that was expanded
pub fn explore_collect<S: Sut>(uni: &Universe, cfg: &Config, observers: &[(&'static str, Observer<S>)], mut collect: Option<&mut Vec<St<S>>>) -> Report {
    let t0 = Instant::now();
    let mut rep = Report {
        run: cfg.run_label.clone(),
        exhaustive: true,
        ..Default::default()
    };
    let mut visited: HashMap<Box<[u8]>, u32> = HashMap::new();
    let mut shapes: std::collections::HashSet<Box<[u8]>> = Default::default();
    let init: St<S> = initial(uni, cfg.key_opts);
    visited.insert(init.key.clone(), 0);
    shapes.insert(shape_key(init.walk(), uni));
    rep.canonical_states += 1;
    let mut frontier: Vec<(u32, St<S>)> = vec![(0, init)];
    let mut all_viols: HashMap<Sig, (u64, Found)> = HashMap::new();
    let mut stop = false;
    let mut tainted_states: usize = 0;
    while !frontier.is_empty() && !stop {
        rep.layers += 1;
        let threads = cfg.threads.max(1).min(frontier.len().max(1));
        let visited_ref = &visited;
        let frontier_ref = &frontier;
        let parts: Vec<Partial<S>> = std::thread::scope(|s| {
            let mut hs = vec![];
            for t in 0..threads {
                hs.push(s.spawn(move || {
                    let mut part = Partial::new();
                    let mut local_new: HashMap<Box<[u8]>, usize> = HashMap::new();
                    let mut i = t;
                    while i < frontier_ref.len() {
                        let (id, st) = &frontier_ref[i];
                        expand(*id, i as u32, st, cfg, uni, observers, visited_ref, &mut local_new, &mut part, cfg.worker_base + t);
                        i += threads;
                    }
                    part
                }));
            }
            hs.into_iter().map(|h| h.join().expect("explorer worker died")).collect()
        });
        // merge deterministically
        let mut cands: Vec<Cand> = vec![];
        for mut p in parts {
            rep.transitions += p.transitions;
            rep.self_loops += p.self_loops;
            rep.observer_evals += p.observer_evals;
            rep.pruned += p.pruned;
            rep.max_arena_len = rep.max_arena_len.max(p.max_arena_len);
            for (k, v) in p.op_counts {
                *rep.op_counts.entry(k).or_default() += v;
            }
            for (k, v) in p.known_hits {
                *rep.known_hits.entry(k).or_default() += v;
            }
            cands.append(&mut p.cands);
            for (sig, (cnt, f)) in p.viols {
                if cfg.stop_props.iter().any(|p| *p == sig.0) {
                    stop = true;
                }
                match all_viols.get_mut(&sig) {
                    Some(e) => {
                        e.0 += cnt;
                        if (f.history.len(), &f.history, &f.viol) < (e.1.history.len(), &e.1.history, &e.1.viol) {
                            e.1 = f;
                        }
                    }
                    None => {
                        all_viols.insert(sig, (cnt, f));
                    }
                }
            }
        }
        cands.sort_by(|a, b| (a.parent, a.op_idx).cmp(&(b.parent, b.op_idx)));
        // one winner per new key (the least (parent, operation)), ids in that order
        let mut winners: Vec<(u32, Cand)> = vec![];
        for c in cands {
            if visited.contains_key(&c.key) {
                continue;
            }
            // tainted states (followed only to expose downstream effects of a structural / counter
            // violation) are capped per run: their free lists differ endlessly under a leak
            if c.taint > 0 {
                if tainted_states >= MAX_TAINTED_STATES {
                    rep.pruned += 1;
                    continue;
                }
                tainted_states += 1;
            }
            let id = visited.len() as u32;
            visited.insert(c.key.clone(), id);
            winners.push((id, c));
        }
        // phase 2: materialise the winners (clone of the parent + the same deterministic operation)
        let cx = Cx { uni, canonical: cfg.alpha == Alphabet::Canonical, deep: cfg.deep, deep_find_sides: true };
        let threads2 = cfg.threads.max(1).min(winners.len().max(1));
        let winners_ref = &winners;
        let frontier_ref = &frontier;
        let cx_ref = &cx;
        let mut built: Vec<(usize, St<S>, Box<[u8]>, bool)> = std::thread::scope(|s| {
            let mut hs = vec![];
            for t in 0..threads2 {
                hs.push(s.spawn(move || {
                    let mut out = vec![];
                    let mut i = t;
                    while i < winners_ref.len() {
                        let (_, c) = &winners_ref[i];
                        let (_, pst) = &frontier_ref[c.fidx as usize];
                        let mut map = pst.map.clone();
                        let mut model = pst.model.clone();
                        let tok = (pst.depth + 1) * 1000;
                        let _ = guarded(|| map.apply(&mut model, pst.walk(), c.op, tok, cx_ref));
                        let (w, _, _) = walk(&map.dump(), uni.width);
                        let sk = shape_key(&w, uni);
                        let canon = is_canonical(&w);
                        out.push((
                            i,
                            St {
                                map,
                                model,
                                walk_cell: std::sync::OnceLock::new(),
                                width: uni.width,
                                key: c.key.clone(),
                                depth: pst.depth + 1,
                                hist: Some(Arc::new(HistNode { op: c.op, parent: pst.hist.clone() })),
                                taint: c.taint,
                            },
                            sk,
                            canon,
                        ));
                        i += threads2;
                    }
                    out
                }));
            }
            hs.into_iter().flat_map(|h| h.join().expect("explorer worker died")).collect()
        });
        built.sort_by_key(|b| b.0);
        let mut next: Vec<(u32, St<S>)> = Vec::with_capacity(built.len());
        for (i, st, sk, canon) in built {
            if shapes.insert(sk) && canon {
                rep.canonical_states += 1;
            }
            if rep.samples.len() < 3 && st.depth >= 3 {
                rep.samples.push(history_of(&st.hist).iter().map(|o| o.describe(uni)).collect::<Vec<_>>().join(" ; "));
            }
            next.push((winners[i].0, st));
        }
        let old = std::mem::replace(&mut frontier, next);
        if let Some(c) = collect.as_mut() {
            c.extend(old.into_iter().map(|x| x.1));
        }
        if visited.len() > cfg.max_states {
            rep.exhaustive = false;
            rep.cap_hit = Some(format!("max_states {} exceeded after layer {}", cfg.max_states, rep.layers));
            break;
        }
        if rss_gb() > 20.0 {
            rep.exhaustive = false;
            rep.cap_hit = Some(format!("resident memory above 20 GB after layer {}", rep.layers));
            break;
        }
        if t0.elapsed().as_secs_f64() > cfg.max_wall_s {
            rep.exhaustive = false;
            rep.cap_hit = Some(format!("wall cap {} s hit after layer {}", cfg.max_wall_s, rep.layers));
            break;
        }
    }
    if stop && !frontier.is_empty() {
        rep.exhaustive = false;
        rep.cap_hit = Some(format!("stopped after layer {} because a violation was found", rep.layers));
    }
    let mut found: Vec<Found> = all_viols
        .into_iter()
        .map(|(_, (cnt, mut f))| {
            f.occurrences = cnt;
            f
        })
        .collect();
    found.sort_by(|a, b| (a.history.len(), &a.viol, &a.history).cmp(&(b.history.len(), &b.viol, &b.history)));
    rep.found = found;
    rep.states = visited.len() as u64;
    rep.shape_states = shapes.len() as u64;
    let mut keys: Vec<&Box<[u8]>> = visited.keys().collect();
    keys.sort();
    let mut h = 0xcbf29ce484222325u64;
    for k in keys {
        fnv(&mut h, k);
        fnv(&mut h, &[0xfe]);
    }
    rep.digest = h;
    rep.wall_s = t0.elapsed().as_secs_f64();
    rep
}
