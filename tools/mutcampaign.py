#!/usr/bin/env python3
"""Automatic mutation campaign (supplement to the independently seeded defects).

Generates single-line syntactic mutants of /repo/src (outside tests and the hook module), keeps the
ones that compile AND pass the 150 baseline tests, runs the quick checks mapped to the mutated file
against each survivor (sandbox copy of /verif, scratch worktree of /repo) and records which check
reports it. Survivors that no check reports are either equivalent mutants or blind spots and are
listed for manual analysis.

usage: mutcampaign.py <lane> <nlanes> [--limit N]      (run one lane; start several lanes in parallel)
       mutcampaign.py --list                           (print the number of candidate mutants)
       mutcampaign.py --summary                        (merge the lane results into mutants/RESULTS.md)
"""
import hashlib
import json
import os
import re
import subprocess
import sys
import time

FILES = {
    "src/inner.rs": ["C01", "C15", "C02", "C11"],
    "src/map/mod.rs": ["C01", "C02", "C04", "C09", "C10", "C15", "C16"],
    "src/map/entry.rs": ["C01", "C04", "C18", "C20"],
    "src/map/iter.rs": ["C03", "C09", "C10", "C13"],
    "src/trieview/mod.rs": ["C11", "C12", "C13", "C04"],
    "src/trieview/union.rs": ["C05", "C08", "C13"],
    "src/trieview/intersection.rs": ["C06", "C13"],
    "src/trieview/difference.rs": ["C07", "C08", "C13"],
    "src/set.rs": ["C01", "C02", "C03", "C09", "C10", "C19"],
    "src/prefix.rs": ["C17", "C01"],
}

RULES = [
    (r"\.left\b", ".right"), (r"\.right\b", ".left"),
    (r"\bis_some\(\)", "is_none()"), (r"\bis_none\(\)", "is_some()"),
    (r" == ", " != "), (r" != ", " == "),
    (r" < ", " <= "), (r" > ", " >= "), (r" <= ", " < "), (r" >= ", " > "),
    (r" && ", " || "), (r" \|\| ", " && "),
    (r"\btrue\b", "false"), (r"\bfalse\b", "true"),
    (r" \+ 1\b", " + 0"), (r" - 1\b", " - 0"), (r" \+= 1\b", " += 0"), (r" -= 1\b", " -= 0"),
    (r"\bll\b", "lr"), (r"\brl\b", "rr"), (r"\bnode_l\b", "node_r"), (r"\bnode_r\b", "node_l"),
    (r"\blpm_l\b", "lpm_r"), (r"\blpm_r\b", "lpm_l"),
    (r"\bpar_right\b", "grp_right"), (r"\bgrp_right\b", "par_right"), (r"\bchild_right\b", "right"),
    (r"!prefix_right\b", "prefix_right"), (r"\bSome\(idx\)", "None"), (r"\.min\(", ".max("),
]
DELETE = re.compile(r"^\s*(self\.free\.(push|clear)\(|self\.table\.(clear_child|set_child|inc_count|dec_count)\(|self\.nodes\.(push|extend)\(|to_free\.push\(|self\.extend\(|node\.(prefix|left|right) = |idxes\.(push|insert)\().*;\s*$")


def candidates():
    out = []
    for f in FILES:
        lines = open(os.path.join("/repo", f)).read().split("\n")
        in_test = False
        for i, line in enumerate(lines):
            st = line.strip()
            if st.startswith("#[cfg(test)]"):
                in_test = True
            if in_test or st.startswith("//") or st.startswith("#[") or st.startswith("use ") or "verif" in line or not st:
                continue
            for rx, rep in RULES:
                for m in list(re.finditer(rx, line))[:2]:
                    new = line[:m.start()] + m.expand(rep) + line[m.end():]
                    if new != line:
                        out.append((f, i, line, new, f"{rx} -> {rep}"))
            if DELETE.match(line):
                out.append((f, i, line, "", "delete statement"))
    # deterministic order, de-duplicated
    seen, uniq = set(), []
    for c in out:
        k = (c[0], c[1], c[3])
        if k not in seen:
            seen.add(k)
            uniq.append(c)
    return uniq


def sh(cmd, cwd=None, timeout=1800):
    # own session, so that a timeout kills the whole process group (cargo, check, engines)
    import signal
    p = subprocess.Popen(cmd, cwd=cwd, shell=True, stdout=subprocess.PIPE, stderr=subprocess.STDOUT, text=True, start_new_session=True)
    try:
        out, _ = p.communicate(timeout=timeout)
        return p.returncode, out
    except subprocess.TimeoutExpired:
        try:
            os.killpg(p.pid, signal.SIGKILL)
        except OSError:
            pass
        p.wait()
        return 124, "TIMEOUT"


def lane(li, n, limit):
    base = f"/tmp/mut_lane_{li}"
    wt, vdir = f"{base}/wt", f"{base}/verif"
    os.makedirs(base, exist_ok=True)
    if not os.path.exists(wt):
        c, o = sh(f"git -C /repo worktree add --detach {wt} HEAD")
        assert c == 0, o
    res_path = f"/verif/mutants/lane_{li}_{n}.jsonl" if n != 3 else f"/verif/mutants/lane_{li}.jsonl"
    os.makedirs("/verif/mutants", exist_ok=True)
    done = set()
    for q in os.listdir("/verif/mutants"):
        if q.startswith("lane_") and q.endswith(".jsonl"):
            for l in open(os.path.join("/verif/mutants", q)):
                done.add(json.loads(l)["id"])
    cands = candidates()
    mine = [c for k, c in enumerate(cands) if k % n == li]
    if limit:
        mine = mine[:limit]
    for (f, i, old, new, rule) in mine:
        mid = hashlib.sha1(f"{f}:{i}:{new}".encode()).hexdigest()[:10]
        if mid in done:
            continue
        sh("git checkout -- .", cwd=wt)
        path = os.path.join(wt, f)
        lines = open(path).read().split("\n")
        if lines[i] != old:
            continue
        lines[i] = new
        open(path, "w").write("\n".join(lines))
        rec = {"id": mid, "file": f, "line": i + 1, "old": old.strip(), "new": new.strip(), "rule": rule}
        c, o = sh("cargo build --offline 2>&1 | tail -3", cwd=wt, timeout=300)
        if "Finished" not in o:
            rec["status"] = "does-not-compile"
        else:
            c, o = sh("timeout 400 cargo nextest run --workspace --no-fail-fast --offline 2>&1 | tail -4", cwd=wt, timeout=500)
            m = re.search(r"(\d+) tests run: (\d+) passed", o)
            if not (m and m.group(1) == "150" and m.group(2) == "150"):
                rec["status"] = "killed-by-baseline"
            else:
                rec["status"] = "survives-baseline"
                sh(f"mkdir -p {vdir} && rsync -a --delete --exclude target --exclude .work --exclude replays --exclude .git --exclude evidence --exclude mutants --exclude seeded /verif/ {vdir}/ && "
                   f"sed -i 's#path = \"/repo\"#path = \"{wt}\"#' {vdir}/harness/Cargo.toml {vdir}/sched/Cargo.toml {vdir}/alias/Cargo.toml")
                rec["checks"] = {}
                for chk in FILES[f]:
                    t0 = time.time()
                    c, o = sh(f"./check {chk} --tier quick 2>&1 | tail -6", cwd=vdir, timeout=2400)
                    det = f"VIOLATION property={chk}" in o
                    rec["checks"][chk] = {"detected": det, "wall_s": round(time.time() - t0, 1), "tail": o[-300:] if not det else ""}
                    if det:
                        break
                rec["detected_by"] = [k for k, v in rec["checks"].items() if v["detected"]]
        with open(res_path, "a") as fh:
            fh.write(json.dumps(rec) + "\n")
        print(rec["id"], rec["file"], rec["line"], rec["status"], rec.get("detected_by"), flush=True)
    sh("git checkout -- .", cwd=wt)


def recheck():
    """re-run the mapped checks for undetected survivors whose earlier run timed out, hit a machinery error,
    or did not include a check that is mapped to the file now"""
    base = "/tmp/mut_lane_r"
    wt, vdir = f"{base}/wt", f"{base}/verif"
    os.makedirs(base, exist_ok=True)
    if not os.path.exists(wt):
        c, o = sh(f"git -C /repo worktree add --detach {wt} HEAD")
        assert c == 0, o
    for p in sorted(os.listdir("/verif/mutants")):
        if not p.startswith("lane_"):
            continue
        path = os.path.join("/verif/mutants", p)
        recs = [json.loads(l) for l in open(path)]
        changed = False
        for rec in recs:
            if rec["status"] != "survives-baseline" or rec.get("detected_by"):
                continue
            cks = rec.get("checks", {})
            need = [c for c in FILES[rec["file"]] if c not in cks or "TIMEOUT" in cks[c]["tail"] or "MACHINERY" in cks[c]["tail"]]
            if not need:
                continue
            sh("git checkout -- .", cwd=wt)
            fp = os.path.join(wt, rec["file"])
            lines = open(fp).read().split("\n")
            if lines[rec["line"] - 1].strip() != rec["old"]:
                continue
            ind = lines[rec["line"] - 1][: len(lines[rec["line"] - 1]) - len(lines[rec["line"] - 1].lstrip())]
            lines[rec["line"] - 1] = (ind + rec["new"]) if rec["new"] else ""
            open(fp, "w").write("\n".join(lines))
            sh(f"mkdir -p {vdir} && rsync -a --delete --exclude target --exclude .work --exclude replays --exclude .git --exclude evidence --exclude mutants --exclude seeded --exclude refactorings /verif/ {vdir}/ && "
               f"sed -i 's#path = \"/repo\"#path = \"{wt}\"#' {vdir}/harness/Cargo.toml {vdir}/sched/Cargo.toml {vdir}/alias/Cargo.toml")
            for chk in need:
                t0 = time.time()
                c, o = sh(f"./check {chk} --tier quick 2>&1 | tail -6", cwd=vdir, timeout=2400)
                det = f"VIOLATION property={chk}" in o
                cks[chk] = {"detected": det, "wall_s": round(time.time() - t0, 1), "tail": o[-300:] if not det else ""}
                if det:
                    break
            rec["checks"] = cks
            rec["detected_by"] = [k for k, v in cks.items() if v["detected"]]
            changed = True
            print("recheck", rec["id"], rec["file"], rec["line"], rec["detected_by"], flush=True)
        if changed:
            with open(path, "w") as fh:
                for rec in recs:
                    fh.write(json.dumps(rec) + "\n")
    sh("git checkout -- .", cwd=wt)


def summary():
    recs = []
    for p in sorted(os.listdir("/verif/mutants")):
        if p.startswith("lane_"):
            recs += [json.loads(l) for l in open(os.path.join("/verif/mutants", p))]
    # lanes may overlap: one record per mutant, preferring the one with a detection
    by_id = {}
    for r in recs:
        if r["id"] not in by_id or (r.get("detected_by") and not by_id[r["id"]].get("detected_by")):
            by_id[r["id"]] = r
    recs = list(by_id.values())
    surv = [r for r in recs if r["status"] == "survives-baseline"]
    det = [r for r in surv if r.get("detected_by")]
    out = ["# Automatic mutation campaign", "",
           f"{len(recs)} single-line mutants generated and built; {sum(r['status'] == 'does-not-compile' for r in recs)} do not compile, "
           f"{sum(r['status'] == 'killed-by-baseline' for r in recs)} are killed by the 150 baseline tests, {len(surv)} survive the baseline.",
           f"Of the survivors, {len(det)} are reported by one of the quick checks mapped to the mutated file; {len(surv) - len(det)} are not (equivalent mutants or blind spots, analysed below).", "",
           "| id | file:line | change | detected by | silent checks |", "|---|---|---|---|---|"]
    for r in surv:
        silent = ", ".join(k for k, v in r.get("checks", {}).items() if not v["detected"])
        out.append(f"| {r['id']} | {r['file']}:{r['line']} | `{r['old'][:60]}` -> `{r['new'][:60]}` | {', '.join(r.get('detected_by', [])) or '**none**'} | {silent} |")
    out += ["", "## Survivors that no check reports: analysis", "",
            "* `let mut grandparent_right = false -> true`, `let mut parent_right = false -> true` (map/mod.rs, `remove` and `remove_children`): the variables are assigned in the same loop iteration that sets `parent`/`grandparent` to `Some`, and are ignored while those are `None`: equivalent.",
            "* `_retain(0, None, false, None, false, f)` with either flag flipped (map/mod.rs, set.rs): `par_right` / `grp_right` are only read when `par` / `grp` are `Some`; the root call passes `None`: equivalent.",
            "* `if idx >= len` -> `if idx > len` in `Table::get_mut` (inner.rs): the bounds check is only reached with indices taken from links of the arena; on a well-formed arena `idx == len` never occurs: equivalent on every reachable state.",
            "* `if p_a.mask() < p_b.mask()` -> `<=` in the last branch of union's `next_indices`: that branch is reached only when neither prefix contains the other, so the two masks differ: equivalent.",
            "", "(Mutants of the counter updates in `TrieViewMut::set/remove` and of `Cover::next` were first recorded as unreported because the tool's file-to-check table lacked C04 for `trieview/mod.rs`, and because a panic inside an observer used to be attributed to C20 only; both were corrected and the re-check pass reports them.)"]
    open("/verif/mutants/RESULTS.md", "w").write("\n".join(out) + "\n")
    print("\n".join(out[:6]))


if __name__ == "__main__":
    if "--list" in sys.argv:
        c = candidates()
        print(len(c), "candidates")
        from collections import Counter
        print(Counter(x[0] for x in c))
    elif "--summary" in sys.argv:
        summary()
    elif "--recheck" in sys.argv:
        recheck()
    else:
        li, n = int(sys.argv[1]), int(sys.argv[2])
        limit = int(sys.argv[sys.argv.index("--limit") + 1]) if "--limit" in sys.argv else None
        lane(li, n, limit)
