//! [E4] exhaustive schedule exploration (shuttle DFS) of workers that mutate pairwise disjoint
//! mutable views of one map concurrently (C14, clause 2).
//!
//! Every arena node access is a scheduling point (the verification hook calls `yield_now`) and is
//! logged as (worker, slot, write). For every schedule the final map must equal the sequential
//! result, and the footprints of different workers must be disjoint on every slot one of them writes.

use std::cell::RefCell;
use std::panic::{catch_unwind, AssertUnwindSafe};
use std::sync::{Arc, Mutex};

use prefix_trie::{AsViewMut, PrefixMap, TrieViewMut};
use serde_json::{json, Value};
use shuttle::scheduler::{DfsScheduler, ReplayScheduler};
use shuttle::{Config, FailurePersistence, Runner};

use vharness::model::{covers, norm, Obs};
use vharness::ops::{collect_iter, Alphabet, Op};
use vharness::pairs::{gen_states, PState};
use vharness::ptypes::{PType, GK};
use vharness::universe::{Embed, Universe};

shuttle::thread_local! {
    static WORKER: RefCell<usize> = RefCell::new(0);
}

thread_local! {
    // shuttle runs all tasks of one execution on the calling OS thread: a std thread-local is
    // per exploration, shared by the tasks of that exploration
    static LOG: RefCell<Vec<(usize, usize, bool)>> = const { RefCell::new(Vec::new()) };
    static ACTIVE: RefCell<bool> = const { RefCell::new(false) };
    static YIELD_ON_READS: RefCell<bool> = const { RefCell::new(false) };
}

fn access_hook(_table: usize, slot: usize, write: bool) {
    let active = ACTIVE.with(|a| *a.borrow());
    if !active {
        return;
    }
    let w = WORKER.with(|w| *w.borrow());
    if w == 0 {
        return;
    }
    if slot == prefix_trie::verif::COUNTER_SLOT {
        // the element counter is an atomic shared by all views: every operation on it is a
        // scheduling point, but it is not part of the per-node footprints
        shuttle::thread::yield_now();
        return;
    }
    LOG.with(|l| l.borrow_mut().push((w, slot, write)));
    if write || YIELD_ON_READS.with(|y| *y.borrow()) {
        shuttle::thread::yield_now();
    }
}

/// what a worker does with the view(s) it owns
#[derive(Clone, Copy, Debug, PartialEq, Eq)]
enum Body {
    /// write through every reference of into_iter
    IterWrite,
    /// value(), set(v), remove() on the root of the view
    SetRemove,
    /// value_mut write, then iter_mut write
    ValueThenIter,
    /// remove() only
    Remove,
    /// set(v) only
    Set,
}

const BODIES: [Body; 5] = [Body::IterWrite, Body::SetRemove, Body::ValueThenIter, Body::Remove, Body::Set];

fn run_body<P: PType>(mut v: TrieViewMut<P, u32>, body: Body, tag: u32) {
    match body {
        Body::IterWrite => {
            for (i, (_, x)) in v.into_iter().enumerate() {
                *x = tag + i as u32;
            }
        }
        Body::SetRemove => {
            let _ = v.value().copied();
            let _ = v.set(tag);
            let _ = v.remove();
            let _ = v.set(tag + 1);
        }
        Body::ValueThenIter => {
            if let Some(x) = v.value_mut() {
                *x = tag;
            }
            for (i, (_, x)) in v.iter_mut().enumerate() {
                *x += 10 + i as u32;
            }
        }
        Body::Remove => {
            let _ = v.remove();
        }
        Body::Set => {
            let _ = v.set(tag);
        }
    }
}

/// how the disjoint views are obtained
#[derive(Clone, Copy, Debug, PartialEq, Eq)]
enum Shape {
    /// (left, right) of the root: two workers
    Split2,
    /// (left.left, left.right, right): three workers
    Split3L,
    /// (left, right.left, right.right): three workers
    Split3R,
    /// worker 1 owns (left.left, left.right) and runs union_mut over them, worker 2 owns right
    UnionPlusOne,
}

const SHAPES: [Shape; 4] = [Shape::Split2, Shape::Split3L, Shape::Split3R, Shape::UnionPlusOne];

/// obtain the views; None if the shape does not exist in this map
fn views<'a, P: PType>(m: &'a mut PrefixMap<P, u32>, shape: Shape) -> Option<Vec<TrieViewMut<'a, P, u32>>> {
    let (l, r) = m.view_mut().split();
    match shape {
        Shape::Split2 => Some(vec![l?, r?]),
        Shape::Split3L | Shape::UnionPlusOne => {
            let (ll, lr) = l?.split();
            Some(vec![ll?, lr?, r?])
        }
        Shape::Split3R => {
            let (rl, rr) = r?.split();
            Some(vec![l?, rl?, rr?])
        }
    }
}

fn run_workers_sequential<P: PType>(m: &mut PrefixMap<P, u32>, shape: Shape, bodies: &[Body], order_rev: bool) {
    let Some(vs) = views(m, shape) else { return };
    if shape == Shape::UnionPlusOne {
        let mut it = vs.into_iter();
        let (mut a, b, c) = (it.next().unwrap(), it.next().unwrap(), it.next().unwrap());
        let w1 = move || {
            for (i, (_, l, r)) in a.union_mut(b).enumerate() {
                if let Some(l) = l {
                    *l = 7000 + i as u32;
                }
                if let Some(r) = r {
                    *r = 7100 + i as u32;
                }
            }
        };
        if order_rev {
            run_body(c, bodies[0], 2000);
            w1();
        } else {
            w1();
            run_body(c, bodies[0], 2000);
        }
        return;
    }
    let mut tagged: Vec<(usize, TrieViewMut<P, u32>)> = vs.into_iter().enumerate().collect();
    if order_rev {
        tagged.reverse();
    }
    for (i, v) in tagged {
        run_body(v, bodies[i % bodies.len()], 1000 * (i as u32 + 1));
    }
}

fn run_workers_concurrent<P: PType>(m: &mut PrefixMap<P, u32>, shape: Shape, bodies: &[Body]) {
    let Some(vs) = views(m, shape) else { return };
    if shape == Shape::UnionPlusOne {
        let mut it = vs.into_iter();
        let (mut a, b, c) = (it.next().unwrap(), it.next().unwrap(), it.next().unwrap());
        let body = bodies[0];
        shuttle::thread::scope(|s| {
            s.spawn(move || {
                WORKER.with(|w| *w.borrow_mut() = 1);
                for (i, (_, l, r)) in a.union_mut(b).enumerate() {
                    if let Some(l) = l {
                        *l = 7000 + i as u32;
                    }
                    if let Some(r) = r {
                        *r = 7100 + i as u32;
                    }
                }
            });
            s.spawn(move || {
                WORKER.with(|w| *w.borrow_mut() = 2);
                run_body(c, body, 2000);
            });
        });
        return;
    }
    shuttle::thread::scope(|s| {
        for (i, v) in vs.into_iter().enumerate() {
            let body = bodies[i % bodies.len()];
            s.spawn(move || {
                WORKER.with(|w| *w.borrow_mut() = i + 1);
                run_body(v, body, 1000 * (i as u32 + 1));
            });
        }
    });
}

/// footprints of different workers must be disjoint on every slot that one of them writes
fn race_in(log: &[(usize, usize, bool)]) -> Option<String> {
    for &(w1, s1, wr1) in log {
        if !wr1 {
            continue;
        }
        for &(w2, s2, _) in log {
            if w2 != w1 && s2 == s1 {
                return Some(format!("slot {s1} is written by worker {w1} and accessed by worker {w2}"));
            }
        }
    }
    None
}

struct Outcome {
    schedules: usize,
    failure: Option<(String, Option<String>)>,
    accesses_max: usize,
}

fn explore_one<P: PType>(base: &PrefixMap<P, u32>, shape: Shape, bodies: Vec<Body>, max_schedules: usize, sched_dir: &std::path::Path, replay: Option<&str>) -> Outcome {
    // sequential references (both orders must agree, since the views are disjoint)
    let mut s1 = base.clone();
    run_workers_sequential(&mut s1, shape, &bodies, false);
    let mut s2 = base.clone();
    run_workers_sequential(&mut s2, shape, &bodies, true);
    let want: Vec<Obs> = collect_iter(&s1);
    let want_len = s1.len();
    if collect_iter(&s2) != want || s2.len() != want_len {
        return Outcome { schedules: 0, failure: Some((format!("sequential executions in the two orders differ: {:x?} vs {:x?}", want, collect_iter(&s2)), None)), accesses_max: 0 };
    }
    let base = Arc::new(base.clone());
    let max_acc = Arc::new(Mutex::new(0usize));
    let max_acc2 = max_acc.clone();
    let bodies2 = bodies.clone();
    let f = move || {
        let mut m = (*base).clone();
        LOG.with(|l| l.borrow_mut().clear());
        ACTIVE.with(|a| *a.borrow_mut() = true);
        run_workers_concurrent(&mut m, shape, &bodies2);
        ACTIVE.with(|a| *a.borrow_mut() = false);
        let log: Vec<(usize, usize, bool)> = LOG.with(|l| l.borrow().clone());
        {
            let mut g = max_acc2.lock().unwrap();
            *g = (*g).max(log.len());
        }
        if let Some(r) = race_in(&log) {
            panic!("C14-RACE {r}; log {:?}", log);
        }
        let got = collect_iter(&m);
        if got != want || m.len() != want_len {
            panic!("C14-RESULT concurrent result {:x?} (len {}) differs from the sequential result {:x?} (len {}); log {:?}", got, m.len(), want, want_len, log);
        }
    };
    let mut config = Config::new();
    config.failure_persistence = FailurePersistence::File(Some(sched_dir.to_path_buf()));
    config.silence_warnings = true;
    let r = catch_unwind(AssertUnwindSafe(|| match replay {
        None => Runner::new(DfsScheduler::new(Some(max_schedules), false), config).run(f),
        Some(s) => Runner::new(ReplayScheduler::new_from_encoded(s), config).run(f),
    }));
    ACTIVE.with(|a| *a.borrow_mut() = false);
    let accesses_max = *max_acc.lock().unwrap();
    match r {
        Ok(n) => Outcome { schedules: n, failure: None, accesses_max },
        Err(e) => {
            let msg = if let Some(s) = e.downcast_ref::<String>() {
                s.clone()
            } else if let Some(s) = e.downcast_ref::<&str>() {
                s.to_string()
            } else {
                "<panic>".into()
            };
            // newest persisted schedule
            let mut files: Vec<_> = std::fs::read_dir(sched_dir).map(|d| d.filter_map(|e| e.ok()).map(|e| e.path()).collect()).unwrap_or_default();
            files.sort();
            let sched = files.last().and_then(|p| std::fs::read_to_string(p).ok());
            for p in files {
                let _ = std::fs::remove_file(p);
            }
            Outcome { schedules: 0, failure: Some((msg, sched)), accesses_max }
        }
    }
}

fn body_sets(shape: Shape, full: bool) -> Vec<Vec<Body>> {
    if !full {
        return match shape {
            Shape::Split2 => vec![vec![Body::IterWrite, Body::Set], vec![Body::Set, Body::Remove], vec![Body::Remove, Body::Remove], vec![Body::Set, Body::Set], vec![Body::ValueThenIter, Body::Remove]],
            Shape::Split3L | Shape::Split3R => vec![vec![Body::Set, Body::Remove, Body::IterWrite]],
            Shape::UnionPlusOne => vec![vec![Body::Remove]],
        };
    }
    match shape {
        Shape::Split2 => {
            let mut v = vec![];
            for a in BODIES {
                for b in BODIES {
                    v.push(vec![a, b]);
                }
            }
            v
        }
        Shape::Split3L | Shape::Split3R => vec![vec![Body::IterWrite, Body::SetRemove, Body::ValueThenIter], vec![Body::SetRemove, Body::SetRemove, Body::SetRemove], vec![Body::Remove, Body::IterWrite, Body::SetRemove]],
        Shape::UnionPlusOne => BODIES.iter().map(|b| vec![*b]).collect(),
    }
}

fn ops_json(h: &[Op], uni: &Universe) -> Vec<Value> {
    h.iter()
        .map(|op| json!({"kind": format!("{:?}", op.kind), "key_id": op.key, "rep": op.rep, "arg": op.arg, "text": op.describe(uni)}))
        .collect()
}

fn run_typed<P: PType>(spec: &Value) -> Value {
    let t0 = std::time::Instant::now();
    let embed = match spec["embed"].as_str() {
        Some("lo") => Embed::Lo,
        Some("mid") => Embed::Mid,
        _ => Embed::Hi,
    };
    let uni = Universe::new(spec["universe"].as_str().unwrap_or("U2"), embed, P::WIDTH);
    let (m, r) = (spec["a_mod"].as_u64().unwrap_or(1) as usize, spec["a_rem"].as_u64().unwrap_or(0) as usize);
    let max_schedules = spec["max_schedules"].as_u64().unwrap_or(200_000) as usize;
    let (states, rep): (Vec<PState<PrefixMap<P, u32>>>, _) = gen_states::<P, PrefixMap<P, u32>>(&uni, 0, Alphabet::Structural, false, 1, "states");
    let full = spec["full"].as_bool().unwrap_or(false);
    YIELD_ON_READS.with(|y| *y.borrow_mut() = spec["yield_on_reads"].as_bool().unwrap_or(false));
    let sched_dir = std::path::PathBuf::from(spec["sched_dir"].as_str().unwrap_or("/verif/.work/sched"));
    let _ = std::fs::create_dir_all(&sched_dir);
    let mut schedules = 0u64;
    let mut harnesses = 0u64;
    let mut capped = 0u64;
    let mut found: Vec<Value> = vec![];
    let mut seen_sig = std::collections::HashSet::new();
    let mut sample = None;
    let mut acc_max = 0usize;
    let mut distinct_counts = std::collections::BTreeSet::new();
    for (i, st) in states.iter().enumerate() {
        if i % m != r {
            continue;
        }
        for shape in SHAPES {
            {
                let mut probe = st.sut.clone();
                if views(&mut probe, shape).is_none() {
                    continue;
                }
            }
            for bodies in body_sets(shape, full) {
                harnesses += 1;
                let o = explore_one::<P>(&st.sut, shape, bodies.clone(), max_schedules, &sched_dir, None);
                schedules += o.schedules as u64;
                acc_max = acc_max.max(o.accesses_max);
                distinct_counts.insert(o.schedules);
                if o.schedules >= max_schedules {
                    capped += 1;
                }
                if sample.is_none() && o.schedules > 50 && st.hist.len() >= 3 {
                    sample = Some(json!({"history": st.hist.iter().map(|o| o.describe(&uni)).collect::<Vec<_>>(), "views": format!("{:?}", shape), "bodies": format!("{:?}", bodies), "schedules": o.schedules, "node_accesses_in_one_schedule": o.accesses_max}));
                }
                if let Some((msg, sched)) = o.failure {
                    let cond = if msg.contains("C14-RACE") { "overlapping-footprints" } else if msg.contains("C14-RESULT") { "concurrent-differs-from-sequential" } else { "panic-in-worker" };
                    let sig = (cond.to_string(), format!("{:?}", shape));
                    if seen_sig.insert(sig) {
                        found.push(json!({"property": "C14", "site": format!("concurrent workers on {:?}", shape), "cond": cond, "detail": msg.chars().take(900).collect::<String>(), "at": "schedule", "occurrences": 1,
                            "history": ops_json(&st.hist, &uni), "extra": {"shape": format!("{:?}", shape), "bodies": bodies.iter().map(|b| format!("{:?}", b)).collect::<Vec<_>>(), "schedule": sched}}));
                    }
                }
            }
        }
    }
    json!({
        "spec": spec, "engine": "sched", "run": format!("sched {} {} slice {}/{}", P::NAME, uni.name, r, m),
        "states": rep.states, "shape_states": rep.shape_states, "transitions": rep.transitions,
        "harnesses": harnesses, "schedules": schedules, "evaluations": schedules, "distinct_outcomes": distinct_counts.len(), "capped_harnesses": capped,
        "max_node_accesses_per_schedule": acc_max,
        "exhaustive": capped == 0, "cap_hit": if capped > 0 { Some(format!("{capped} harnesses reached the cap of {max_schedules} schedules")) } else { None },
        "wall_s": t0.elapsed().as_secs_f64(), "samples": sample.into_iter().collect::<Vec<_>>(), "found": found,
    })
}

fn parse_body(s: &str) -> Body {
    BODIES.iter().copied().find(|b| format!("{:?}", b) == s).expect("body")
}
fn parse_shape(s: &str) -> Shape {
    SHAPES.iter().copied().find(|b| format!("{:?}", b) == s).expect("shape")
}

fn replay_typed<P: PType>(rp: &Value) -> i32 {
    let spec = &rp["spec"];
    let embed = match spec["embed"].as_str() {
        Some("lo") => Embed::Lo,
        Some("mid") => Embed::Mid,
        _ => Embed::Hi,
    };
    let uni = Universe::new(spec["universe"].as_str().unwrap_or("U2"), embed, P::WIDTH);
    let hist = vharness::registry::ops_from_json(&rp["history"]);
    let Some(st) = vharness::registry::rebuild::<PrefixMap<P, u32>>(&uni, &hist, vharness::arena::KeyOpts { reps: false, layout: false, no_free: true }) else {
        println!("MACHINERY-ERROR cannot rebuild the state");
        return 2;
    };
    let shape = parse_shape(rp["extra"]["shape"].as_str().unwrap());
    let bodies: Vec<Body> = rp["extra"]["bodies"].as_array().unwrap().iter().map(|b| parse_body(b.as_str().unwrap())).collect();
    let dir = std::path::PathBuf::from("/verif/.work/sched_replay");
    let _ = std::fs::create_dir_all(&dir);
    let sched = rp["extra"]["schedule"].as_str();
    YIELD_ON_READS.with(|y| *y.borrow_mut() = spec["yield_on_reads"].as_bool().unwrap_or(false));
    let a = explore_one::<P>(&st.map, shape, bodies.clone(), 200_000, &dir, sched);
    let b = explore_one::<P>(&st.map, shape, bodies, 200_000, &dir, sched);
    let key = |o: &Outcome| o.failure.as_ref().map(|f| f.0.clone());
    if key(&a) != key(&b) {
        println!("MACHINERY-ERROR replay is not deterministic");
        return 2;
    }
    match a.failure {
        Some((msg, _)) => {
            println!("observed: {}", msg.chars().take(600).collect::<String>());
            1
        }
        None => {
            println!("not reproduced ({} schedule(s) replayed)", a.schedules);
            0
        }
    }
}

fn main() {
    prefix_trie::verif::set_access_hook(Some(access_hook));
    let args: Vec<String> = std::env::args().collect();
    let _ = (covers, norm);
    let _: Option<GK> = None;
    match args.get(1).map(|s| s.as_str()) {
        Some("run") => {
            let spec: Value = serde_json::from_str(&std::fs::read_to_string(&args[2]).unwrap()).unwrap();
            let out = match spec["ptype"].as_str().unwrap_or("u8") {
                "u8" => run_typed::<(u8, u8)>(&spec),
                "u32" => run_typed::<(u32, u8)>(&spec),
                "u128" => run_typed::<(u128, u8)>(&spec),
                "Ipv4Net" => run_typed::<ipnet::Ipv4Net>(&spec),
                "Ipv6Net" => run_typed::<ipnet::Ipv6Net>(&spec),
                other => json!({"machinery_error": format!("sched: unsupported ptype {other}")}),
            };
            std::fs::write(&args[3], serde_json::to_string(&out).unwrap()).unwrap();
        }
        Some("replay") => {
            let rp: Value = serde_json::from_str(&std::fs::read_to_string(&args[2]).unwrap()).unwrap();
            let code = match rp["spec"]["ptype"].as_str().unwrap_or("u8") {
                "u8" => replay_typed::<(u8, u8)>(&rp),
                "u32" => replay_typed::<(u32, u8)>(&rp),
                "u128" => replay_typed::<(u128, u8)>(&rp),
                "Ipv4Net" => replay_typed::<ipnet::Ipv4Net>(&rp),
                "Ipv6Net" => replay_typed::<ipnet::Ipv6Net>(&rp),
                _ => 2,
            };
            if code == 1 {
                println!("VIOLATION property=C14 replay={}", args[2]);
            }
            std::process::exit(code);
        }
        _ => {
            eprintln!("usage: vs run <spec.json> <out.json> | vs replay <file>");
            std::process::exit(2);
        }
    }
}
