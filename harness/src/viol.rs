//! Violations, panic capture and the pending-call watchdog.

use std::cell::RefCell;
use std::panic::{catch_unwind, AssertUnwindSafe};
use std::sync::atomic::{AtomicBool, AtomicU64, Ordering};
use std::sync::Mutex;
use std::time::{Duration, Instant};

#[derive(Clone, Debug, PartialEq, Eq, PartialOrd, Ord)]
pub struct Viol {
    /// property id, e.g. "C04"
    pub prop: &'static str,
    /// API call or check site, e.g. "TrieViewMut::set"
    pub site: String,
    /// condition class (stable, used for known-finding signatures), e.g. "len-mismatch"
    pub cond: String,
    /// free text: expected / got
    pub detail: String,
}

impl Viol {
    pub fn new(prop: &'static str, site: impl Into<String>, cond: impl Into<String>, detail: impl Into<String>) -> Self {
        Viol {
            prop,
            site: site.into(),
            cond: cond.into(),
            detail: detail.into(),
        }
    }
}

/// push a violation if `ok` is false
#[macro_export]
macro_rules! expect {
    ($out:expr, $ok:expr, $prop:expr, $site:expr, $cond:expr, $($fmt:tt)*) => {
        if !($ok) {
            $out.push($crate::viol::Viol::new($prop, $site, $cond, format!($($fmt)*)));
        }
    };
}

thread_local! {
    static LAST_PANIC: RefCell<Option<String>> = const { RefCell::new(None) };
}

static HOOK_INSTALLED: AtomicBool = AtomicBool::new(false);

/// Install a panic hook that records the message per thread instead of printing it.
pub fn install_quiet_panic_hook() {
    if HOOK_INSTALLED.swap(true, Ordering::SeqCst) {
        return;
    }
    let default = std::panic::take_hook();
    std::panic::set_hook(Box::new(move |info| {
        if std::env::var_os("VERIF_LOUD_PANICS").is_some() {
            default(info);
        }
        let msg = if let Some(s) = info.payload().downcast_ref::<&str>() {
            s.to_string()
        } else if let Some(s) = info.payload().downcast_ref::<String>() {
            s.clone()
        } else {
            "<non-string panic payload>".to_string()
        };
        let loc = info
            .location()
            .map(|l| format!("{}:{}", l.file(), l.line()))
            .unwrap_or_default();
        LAST_PANIC.with(|p| *p.borrow_mut() = Some(format!("{msg} @ {loc}")));
    }));
}

/// Run `f`, returning `Err(message)` if it unwinds.
pub fn guarded<R>(f: impl FnOnce() -> R) -> Result<R, String> {
    match catch_unwind(AssertUnwindSafe(f)) {
        Ok(r) => Ok(r),
        Err(_) => Err(LAST_PANIC
            .with(|p| p.borrow_mut().take())
            .unwrap_or_else(|| "<panic>".into())),
    }
}

// ------------------------------------------------------------------------------------------------
// pending-call watchdog
// ------------------------------------------------------------------------------------------------

pub const MAX_WORKERS: usize = 64;

/// what a worker is executing right now
#[derive(Clone)]
pub struct PendingInfo {
    pub run: String,
    pub hist: Option<std::sync::Arc<crate::explore::HistNode>>,
    pub op: Option<crate::ops::Op>,
    pub at: &'static str,
}

pub struct Pending {
    since_ms: [AtomicU64; MAX_WORKERS],
    what: [Mutex<Option<PendingInfo>>; MAX_WORKERS],
    epoch: Instant,
}

static PENDING: std::sync::OnceLock<Pending> = std::sync::OnceLock::new();

fn pending() -> &'static Pending {
    PENDING.get_or_init(|| Pending {
        since_ms: std::array::from_fn(|_| AtomicU64::new(0)),
        what: std::array::from_fn(|_| Mutex::new(None)),
        epoch: Instant::now(),
    })
}

thread_local! {
    static CUR_WORKER: std::cell::Cell<usize> = const { std::cell::Cell::new(usize::MAX) };
}

type StallFn = Box<dyn Fn(Option<PendingInfo>, &'static str) + Send + Sync>;
static ON_CRASH: std::sync::OnceLock<StallFn> = std::sync::OnceLock::new();

extern "C" fn on_fatal_signal(_sig: libc::c_int) {
    // A stack overflow (or another fatal memory fault) inside a library call: report the pending
    // call like a stall. Best effort: we are on the alternate signal stack and about to exit.
    let w = CUR_WORKER.with(|c| c.get());
    if let Some(f) = ON_CRASH.get() {
        let mut info = None;
        if w != usize::MAX {
            if let Ok(g) = pending().what[w % MAX_WORKERS].try_lock() {
                info = g.clone();
            }
        }
        f(info, "stack overflow or memory fault");
    }
    unsafe { libc::_exit(4) };
}

/// Report a stack overflow / memory fault in a worker thread through `on_crash` (which is expected
/// to write the counterexample and exit the process).
pub fn install_crash_handler(on_crash: impl Fn(Option<PendingInfo>, &'static str) + Send + Sync + 'static) {
    let _ = ON_CRASH.set(Box::new(on_crash));
    unsafe {
        let mut sa: libc::sigaction = std::mem::zeroed();
        sa.sa_sigaction = on_fatal_signal as *const () as usize;
        sa.sa_flags = libc::SA_ONSTACK;
        libc::sigemptyset(&mut sa.sa_mask);
        libc::sigaction(libc::SIGSEGV, &sa, std::ptr::null_mut());
        libc::sigaction(libc::SIGBUS, &sa, std::ptr::null_mut());
    }
}

/// mark that worker `w` starts a library call batch
pub fn pending_begin(w: usize, what: PendingInfo) {
    CUR_WORKER.with(|c| c.set(w));
    let p = pending();
    *p.what[w % MAX_WORKERS].lock().unwrap() = Some(what);
    p.since_ms[w % MAX_WORKERS].store(p.epoch.elapsed().as_millis() as u64 + 1, Ordering::SeqCst);
}

pub fn pending_end(w: usize) {
    pending().since_ms[w % MAX_WORKERS].store(0, Ordering::SeqCst);
}

/// Start the watchdog thread: if a call batch is pending for more than `limit`, call `on_stall`
/// with its description (which is expected to report and exit the process).
pub fn start_watchdog(limit: Duration, on_stall: impl Fn(PendingInfo) + Send + 'static) {
    let p = pending();
    std::thread::spawn(move || loop {
        std::thread::sleep(Duration::from_millis(500));
        let now = p.epoch.elapsed().as_millis() as u64 + 1;
        for w in 0..MAX_WORKERS {
            let s = p.since_ms[w].load(Ordering::SeqCst);
            if s != 0 && now.saturating_sub(s) > limit.as_millis() as u64 {
                if let Some(what) = p.what[w].lock().unwrap().clone() {
                    on_stall(what);
                }
            }
        }
    });
}
