//! Violations, panic capture and the pending-call watchdog.

use std::cell::RefCell;
use std::panic::{catch_unwind, AssertUnwindSafe};
use std::sync::atomic::{AtomicBool, AtomicU64, Ordering};
use std::sync::Mutex;
use std::time::{Duration, Instant};

#[derive(Clone, Debug, PartialEq, Eq, PartialOrd, Ord)]
pub struct Viol {
    /// property id, e.g. "C04"
    pub prop: &'static str,
    /// API call or check site, e.g. "TrieViewMut::set"
    pub site: String,
    /// condition class (stable, used for known-finding signatures), e.g. "len-mismatch"
    pub cond: String,
    /// free text: expected / got
    pub detail: String,
}

impl Viol {
    pub fn new(prop: &'static str, site: impl Into<String>, cond: impl Into<String>, detail: impl Into<String>) -> Self {
        Viol {
            prop,
            site: site.into(),
            cond: cond.into(),
            detail: detail.into(),
        }
    }
}

/// push a violation if `ok` is false
#[macro_export]
macro_rules! expect {
    ($out:expr, $ok:expr, $prop:expr, $site:expr, $cond:expr, $($fmt:tt)*) => {
        if !($ok) {
            $out.push($crate::viol::Viol::new($prop, $site, $cond, format!($($fmt)*)));
        }
    };
}

thread_local! {
    static LAST_PANIC: RefCell<Option<String>> = const { RefCell::new(None) };
}

static HOOK_INSTALLED: AtomicBool = AtomicBool::new(false);

/// Install a panic hook that records the message per thread instead of printing it.
pub fn install_quiet_panic_hook() {
    if HOOK_INSTALLED.swap(true, Ordering::SeqCst) {
        return;
    }
    let default = std::panic::take_hook();
    std::panic::set_hook(Box::new(move |info| {
        if std::env::var_os("VERIF_LOUD_PANICS").is_some() {
            default(info);
        }
        let msg = if let Some(s) = info.payload().downcast_ref::<&str>() {
            s.to_string()
        } else if let Some(s) = info.payload().downcast_ref::<String>() {
            s.clone()
        } else {
            "<non-string panic payload>".to_string()
        };
        let loc = info
            .location()
            .map(|l| format!("{}:{}", l.file(), l.line()))
            .unwrap_or_default();
        LAST_PANIC.with(|p| *p.borrow_mut() = Some(format!("{msg} @ {loc}")));
    }));
}

/// Run `f`, returning `Err(message)` if it unwinds.
pub fn guarded<R>(f: impl FnOnce() -> R) -> Result<R, String> {
    match catch_unwind(AssertUnwindSafe(f)) {
        Ok(r) => Ok(r),
        Err(_) => Err(LAST_PANIC
            .with(|p| p.borrow_mut().take())
            .unwrap_or_else(|| "<panic>".into())),
    }
}

// ------------------------------------------------------------------------------------------------
// pending-call watchdog
// ------------------------------------------------------------------------------------------------

pub const MAX_WORKERS: usize = 64;

/// what a worker is executing right now
#[derive(Clone)]
pub struct PendingInfo {
    pub run: String,
    pub hist: Option<std::sync::Arc<crate::explore::HistNode>>,
    pub op: Option<crate::ops::Op>,
    pub at: &'static str,
}

pub struct Pending {
    since_ms: [AtomicU64; MAX_WORKERS],
    what: [Mutex<Option<PendingInfo>>; MAX_WORKERS],
    epoch: Instant,
}

static PENDING: std::sync::OnceLock<Pending> = std::sync::OnceLock::new();

fn pending() -> &'static Pending {
    PENDING.get_or_init(|| Pending {
        since_ms: std::array::from_fn(|_| AtomicU64::new(0)),
        what: std::array::from_fn(|_| Mutex::new(None)),
        epoch: Instant::now(),
    })
}

/// mark that worker `w` starts a library call batch
pub fn pending_begin(w: usize, what: PendingInfo) {
    let p = pending();
    *p.what[w % MAX_WORKERS].lock().unwrap() = Some(what);
    p.since_ms[w % MAX_WORKERS].store(p.epoch.elapsed().as_millis() as u64 + 1, Ordering::SeqCst);
}

pub fn pending_end(w: usize) {
    pending().since_ms[w % MAX_WORKERS].store(0, Ordering::SeqCst);
}

/// Start the watchdog thread: if a call batch is pending for more than `limit`, call `on_stall`
/// with its description (which is expected to report and exit the process).
pub fn start_watchdog(limit: Duration, on_stall: impl Fn(PendingInfo) + Send + 'static) {
    let p = pending();
    std::thread::spawn(move || loop {
        std::thread::sleep(Duration::from_millis(500));
        let now = p.epoch.elapsed().as_millis() as u64 + 1;
        for w in 0..MAX_WORKERS {
            let s = p.since_ms[w].load(Ordering::SeqCst);
            if s != 0 && now.saturating_sub(s) > limit.as_millis() as u64 {
                if let Some(what) = p.what[w].lock().unwrap().clone() {
                    on_stall(what);
                }
            }
        }
    });
}
