//! [E3] exhaustive / structured enumeration of the prefix algebra of every shipped prefix type
//! against a bit-by-bit reference on u128 (C17; also feeds C20 for panics/overflows).

use std::collections::HashMap;
use std::fmt::Debug;

use num_traits::{NumCast, ToPrimitive, Zero};
use prefix_trie::Prefix;

use crate::model::{bit, common_len, covers, mask128, norm};
use crate::ptypes::{PType, GK};
use crate::viol::{guarded, Viol};

/// a newtype that implements only the three required methods, so that every other method runs the
/// trait's default body
#[derive(Debug, Clone)]
pub struct Gen<P>(pub P);

impl<P: Prefix> Prefix for Gen<P> {
    type R = P::R;
    fn repr(&self) -> P::R {
        self.0.repr()
    }
    fn prefix_len(&self) -> u8 {
        self.0.prefix_len()
    }
    fn from_repr_len(repr: P::R, len: u8) -> Self {
        Gen(P::from_repr_len(repr, len))
    }
}

fn la<P: PType>(x: P::R) -> u128 {
    let v = x.to_u128().unwrap_or(u128::MAX);
    if P::WIDTH == 128 {
        v
    } else {
        v << (128 - P::WIDTH as u32)
    }
}

fn to_r<P: PType>(addr: u128) -> P::R {
    let v = if P::WIDTH == 128 { addr } else { addr >> (128 - P::WIDTH as u32) };
    <P::R as NumCast>::from(v).expect("address fits the representation")
}

/// what the type stores for (addr, len): masked for the types that cannot keep host bits
fn stored<P: PType>(k: GK) -> GK {
    if P::KEEPS_HOST {
        k
    } else {
        norm(k)
    }
}

pub struct AlgReport {
    pub found: Vec<(Viol, GK, GK, u64)>,
    pub values: u64,
    pub pairs: u64,
    pub evaluations: u64,
    pub outcome_classes: u64,
    pub sampled_pairs: u64,
}

struct Sink {
    found: HashMap<(String, String, String), (Viol, GK, GK, u64)>,
}

impl Sink {
    fn push(&mut self, v: Viol, a: GK, b: GK) {
        let sig = (v.prop.to_string(), v.site.clone(), v.cond.clone());
        match self.found.get_mut(&sig) {
            Some(e) => e.3 += 1,
            None => {
                self.found.insert(sig, (v, a, b, 1));
            }
        }
    }
}

/// per-value checks; returns the number of evaluations
fn check_value<P: PType>(k: GK, sink: &mut Sink) -> u64 {
    let r = guarded(|| {
        let mut out: Vec<Viol> = vec![];
        let p = P::mk(k.0, k.1);
        let g = Gen(P::mk(k.0, k.1));
        let sk = stored::<P>(k);
        let nk = norm(k);
        let w = P::WIDTH;
        if p.prefix_len() != k.1 {
            out.push(Viol::new("C17", "Prefix::prefix_len", "wrong-length", format!("{:x?}: prefix_len() = {}", k, p.prefix_len())));
        }
        if la::<P>(p.repr()) != sk.0 {
            out.push(Viol::new("C17", "Prefix::repr", "wrong-repr", format!("{:x?}: repr() = {:#x}", k, la::<P>(p.repr()))));
        }
        if la::<P>(p.mask()) != nk.0 {
            out.push(Viol::new("C17", "Prefix::mask", "wrong-mask", format!("{:x?}: mask() = {:#x}, network part is {:#x}", k, la::<P>(p.mask()), nk.0)));
        }
        if la::<P>(g.mask()) != la::<P>(p.mask()) {
            out.push(Viol::new("C17", "Prefix::mask", "override-differs-from-default", format!("{:x?}: {:#x} vs default {:#x}", k, la::<P>(p.mask()), la::<P>(g.mask()))));
        }
        for i in 0..=255u8 {
            let want = i < w && bit(nk, i);
            let got = p.is_bit_set(i);
            if got != want {
                out.push(Viol::new("C17", "Prefix::is_bit_set", "wrong-bit", format!("{:x?}.is_bit_set({i}) = {got}, expected {want}", k)));
                break;
            }
            if g.is_bit_set(i) != got {
                out.push(Viol::new("C17", "Prefix::is_bit_set", "override-differs-from-default", format!("{:x?}.is_bit_set({i})", k)));
                break;
            }
        }
        if !Prefix::eq(&p, &p) || !p.contains(&p) {
            out.push(Viol::new("C17", "Prefix::eq/contains", "not-reflexive", format!("{:x?}", k)));
        }
        // from_repr_len(r, l) has length l and network part r masked to l, for every l
        for l in 0..=w {
            let q = P::from_repr_len(to_r::<P>(k.0), l);
            if q.prefix_len() != l || la::<P>(q.mask()) != (k.0 & mask128(l)) {
                out.push(Viol::new("C17", "Prefix::from_repr_len", "wrong-result", format!("from_repr_len({:#x}, {l}) -> len {} mask {:#x}", k.0, q.prefix_len(), la::<P>(q.mask()))));
                break;
            }
        }
        // the masked form is the same prefix
        let m = P::mk(nk.0, nk.1);
        if !Prefix::eq(&p, &m) || !Prefix::eq(&m, &p) || !p.contains(&m) || !m.contains(&p) {
            out.push(Viol::new("C17", "Prefix::eq/contains", "host-bits-matter", format!("{:x?} vs its network form", k)));
        }
        out
    });
    match r {
        Ok(vs) => {
            for v in vs {
                sink.push(v, k, (0, 0));
            }
        }
        Err(msg) => sink.push(Viol::new("C17", "Prefix (single value)", "panic", format!("{:x?}: {msg}", k)), k, (0, 0)),
    }
    256 * 2 + P::WIDTH as u64 + 8
}

/// per-pair checks; returns an outcome class for the vacuity counter
fn check_pair<P: PType>(a: GK, b: GK, sink: &mut Sink) -> u8 {
    let r = guarded(|| {
        let mut out: Vec<Viol> = vec![];
        let (pa, pb) = (P::mk(a.0, a.1), P::mk(b.0, b.1));
        let (ga, gb) = (Gen(P::mk(a.0, a.1)), Gen(P::mk(b.0, b.1)));
        let (na, nb) = (norm(a), norm(b));
        // contains
        let want_ab = covers(na, nb);
        let got_ab = pa.contains(&pb);
        if got_ab != want_ab {
            out.push(Viol::new("C17", "Prefix::contains", "not-bitwise-coverage", format!("{:x?}.contains({:x?}) = {got_ab}, expected {want_ab}", a, b)));
        }
        if ga.contains(&gb) != got_ab {
            out.push(Viol::new("C17", "Prefix::contains", "override-differs-from-default", format!("{:x?}.contains({:x?}): override {got_ab}", a, b)));
        }
        // eq
        let want_eq = na == nb;
        let got_eq = Prefix::eq(&pa, &pb);
        if got_eq != want_eq {
            out.push(Viol::new("C17", "Prefix::eq", "not-network-part-and-length", format!("{:x?}.eq({:x?}) = {got_eq}, expected {want_eq}", a, b)));
        }
        if Prefix::eq(&ga, &gb) != got_eq {
            out.push(Viol::new("C17", "Prefix::eq", "override-differs-from-default", format!("{:x?}.eq({:x?})", a, b)));
        }
        // antisymmetry up to host bits
        if got_ab && pb.contains(&pa) && !got_eq {
            out.push(Viol::new("C17", "Prefix::contains", "not-antisymmetric", format!("{:x?} and {:x?} contain each other but are not eq", a, b)));
        }
        // longest common prefix
        let l = pa.longest_common_prefix(&pb);
        let lraw: GK = (la::<P>(l.repr()), l.prefix_len());
        let want_len = common_len(na, nb);
        let want: GK = (na.0 & mask128(want_len), want_len);
        if lraw.1 != want.1 || (lraw.0 & mask128(lraw.1)) != want.0 {
            out.push(Viol::new("C17", "Prefix::longest_common_prefix", "wrong-result", format!("lcp({:x?}, {:x?}) = {:x?}, expected {:x?}", a, b, lraw, want)));
        } else if lraw.0 != want.0 {
            out.push(Viol::new("C17", "Prefix::longest_common_prefix", "host-part-not-zero", format!("lcp({:x?}, {:x?}) = {:x?} carries host bits", a, b, lraw)));
        }
        if !l.contains(&pa) || !l.contains(&pb) {
            out.push(Viol::new("C17", "Prefix::longest_common_prefix", "does-not-cover-operands", format!("lcp({:x?}, {:x?}) = {:x?}", a, b, lraw)));
        }
        let l2 = pb.longest_common_prefix(&pa);
        if (la::<P>(l2.repr()), l2.prefix_len()) != lraw {
            out.push(Viol::new("C17", "Prefix::longest_common_prefix", "not-symmetric", format!("lcp({:x?}, {:x?}) = {:x?} but reversed {:x?}", a, b, lraw, (la::<P>(l2.repr()), l2.prefix_len()))));
        }
        let lg = ga.longest_common_prefix(&gb);
        if (la::<P>(lg.0.mask()), lg.0.prefix_len()) != (lraw.0 & mask128(lraw.1), lraw.1) {
            out.push(Viol::new("C17", "Prefix::longest_common_prefix", "override-differs-from-default", format!("lcp({:x?}, {:x?})", a, b)));
        }
        (out, (want_ab as u8) | ((want_eq as u8) << 1) | (((want_len == na.1.min(nb.1)) as u8) << 2))
    });
    match r {
        Ok((vs, class)) => {
            for v in vs {
                sink.push(v, a, b);
            }
            class
        }
        Err(msg) => {
            sink.push(Viol::new("C17", "Prefix (pair)", "panic", format!("{:x?} / {:x?}: {msg}", a, b)), a, b);
            0
        }
    }
}

const HEADS: [u128; 3] = [0, u128::MAX, 0xAAAA_AAAA_AAAA_AAAA_AAAA_AAAA_AAAA_AAAA];
const HOSTS: [u128; 3] = [0, u128::MAX, 0x5555_5555_5555_5555_5555_5555_5555_5555];

fn with_host(net: u128, len: u8, host: u128, width: u8) -> u128 {
    ((net & mask128(len)) | (host & !mask128(len))) & mask128(width)
}

pub fn run_algebra<P: PType>(seed: u64, thorough: bool) -> AlgReport {
    let w = P::WIDTH;
    let mut sink = Sink { found: HashMap::new() };
    let (mut values, mut pairs, mut evals, mut sampled) = (0u64, 0u64, 0u64, 0u64);
    let mut classes = [false; 8];
    if w == 8 {
        // fully exhaustive: all (addr, len) values incl. host bits, all ordered pairs
        let all: Vec<GK> = (0..=8u8).flat_map(|l| (0..=255u128).map(move |a| (a << 120, l))).collect();
        for &a in &all {
            evals += check_value::<P>(a, &mut sink);
            values += 1;
        }
        for &a in &all {
            for &b in &all {
                classes[check_pair::<P>(a, b, &mut sink) as usize] = true;
                pairs += 1;
            }
        }
    } else {
        // structured: lengths x position of the first differing bit x head pattern x host patterns
        let step_d = 1u16;
        for la_ in 0..=w {
            for &h in &HEADS {
                for &ha in &HOSTS {
                    let a: GK = (with_host(h, la_, ha, w), la_);
                    evals += check_value::<P>(a, &mut sink);
                    values += 1;
                }
            }
        }
        for la_ in 0..=w {
            for lb in 0..=w {
                let dmax = la_.max(lb).min(w - 1);
                let mut d = 0u16;
                loop {
                    // d == dmax + 1 encodes "no differing bit within the longer prefix"
                    let flip: u128 = if d <= dmax as u16 { 1u128 << (127 - d as u32) } else { 0 };
                    for &h in &HEADS {
                        for &ha in &HOSTS {
                            for &hb in &HOSTS {
                                let a: GK = (with_host(h, la_, ha, w), la_);
                                let b: GK = (with_host(h ^ flip, lb, hb, w), lb);
                                classes[check_pair::<P>(a, b, &mut sink) as usize] = true;
                                pairs += 1;
                            }
                        }
                    }
                    d += step_d;
                    if d > dmax as u16 + 1 {
                        break;
                    }
                }
            }
        }
        if w == 16 {
            // all values of the 16-bit type
            for l in 0..=16u8 {
                for a in 0..=0xffffu128 {
                    evals += check_value::<P>((a << 112, l), &mut sink);
                    values += 1;
                }
            }
        }
    }
    // seeded random supplement (sampling; reported separately, never the basis of the verdict)
    let mut x = seed.wrapping_mul(0x9E3779B97F4A7C15) ^ 0xD1B54A32D192ED03;
    let mut rnd = || {
        x ^= x << 13;
        x ^= x >> 7;
        x ^= x << 17;
        x
    };
    for _ in 0..(if thorough { 400_000 } else { 40_000 }) {
        let a: GK = ((((rnd() as u128) << 64) | rnd() as u128) & mask128(w), (rnd() % (w as u64 + 1)) as u8);
        let mut b: GK = ((((rnd() as u128) << 64) | rnd() as u128) & mask128(w), (rnd() % (w as u64 + 1)) as u8);
        if rnd() % 2 == 0 {
            // share a random number of leading bits
            let share = (rnd() % (w as u64 + 1)) as u8;
            b.0 = ((a.0 & mask128(share)) | (b.0 & !mask128(share))) & mask128(w);
        }
        check_pair::<P>(a, b, &mut sink);
        sampled += 1;
    }
    evals += pairs * 12;
    let mut found: Vec<(Viol, GK, GK, u64)> = sink.found.into_values().collect();
    found.sort_by(|x, y| (&x.0, x.1, x.2).cmp(&(&y.0, y.1, y.2)));
    let _ = P::R::zero();
    // zero()
    let z = P::zero();
    if z.prefix_len() != 0 || la::<P>(z.mask()) != 0 {
        found.push((Viol::new("C17", "Prefix::zero", "not-the-zero-length-prefix", format!("zero() = ({:#x}, {})", la::<P>(z.repr()), z.prefix_len())), (0, 0), (0, 0), 1));
    }
    let gz = Gen::<P>::zero();
    if gz.0.prefix_len() != 0 || !Prefix::eq(&gz.0, &z) {
        found.push((Viol::new("C17", "Prefix::zero", "override-differs-from-default", String::new()), (0, 0), (0, 0), 1));
    }
    AlgReport { found, values, pairs, evaluations: evals, outcome_classes: classes.iter().filter(|c| **c).count() as u64, sampled_pairs: sampled }
}

pub fn replay_pair<P: PType>(a: GK, b: GK) -> Vec<Viol> {
    let mut sink = Sink { found: HashMap::new() };
    check_value::<P>(a, &mut sink);
    check_pair::<P>(a, b, &mut sink);
    let mut v: Vec<Viol> = sink.found.into_values().map(|x| x.0).collect();
    v.sort();
    v
}

#[allow(dead_code)]
fn _assert_debug<T: Debug>() {}
