//! replay of counterexamples of the other engines (filled in as engines are added)
use serde_json::Value;

pub fn replay_other(engine: &str, _rp: &Value, _path: &str) -> i32 {
    println!("MACHINERY-ERROR no replay support for engine {engine}");
    2
}
