"""Render the operation history of a replay file as plain Rust statements against the public API
(a human-readable sketch of the counterexample; the authoritative replay is `./check <id> --replay`)."""
import ipaddress

WIDTH = {"u8": 8, "u16": 16, "u32": 32, "u64": 64, "u128": 128, "usize": 64, "Ipv4Net": 32, "Ipv6Net": 128, "Ipv4Network": 32,
         "Ipv6Network": 128, "Ipv4Cidr": 32, "Ipv6Cidr": 128, "Ipv4Inet": 32, "Ipv6Inet": 128}
TYPE = {"u8": "(u8, u8)", "u16": "(u16, u8)", "u32": "(u32, u8)", "u64": "(u64, u8)", "u128": "(u128, u8)", "usize": "(usize, u8)",
        "Ipv4Net": "ipnet::Ipv4Net", "Ipv6Net": "ipnet::Ipv6Net", "Ipv4Network": "ipnetwork::Ipv4Network", "Ipv6Network": "ipnetwork::Ipv6Network",
        "Ipv4Cidr": "cidr::Ipv4Cidr", "Ipv6Cidr": "cidr::Ipv6Cidr", "Ipv4Inet": "cidr::Ipv4Inet", "Ipv6Inet": "cidr::Ipv6Inet"}
NAV = ["m.view_mut_at({p})", "m.view_mut().find({p}).ok()", "m.view_mut().find_exact(&{p}).ok()", "m.view_mut().find_lpm(&{p}).ok()",
       "m.view_mut_at({p}).and_then(|v| v.left().ok())", "m.view_mut_at({p}).and_then(|v| v.right().ok())",
       "m.view_mut_at({p}).and_then(|v| v.split().0)", "m.view_mut_at({p}).and_then(|v| v.split().1)"]


def prefix(ptype, key, rep):
    w = WIDTH[ptype]
    addr, ln = int(key[0], 16), key[1]
    mask = ((1 << ln) - 1) << (128 - ln) if ln else 0
    wmask = ((1 << w) - 1) << (128 - w)
    if rep and "Cidr" not in ptype:
        addr |= 0x55555555555555555555555555555555 & ~mask & wmask
    v = addr >> (128 - w)
    if ptype in ("u8", "u16", "u32", "u64", "u128", "usize"):
        return f"({v:#x}, {ln})"
    ip = ipaddress.IPv4Address(v) if w == 32 else ipaddress.IPv6Address(v)
    return f'"{ip}/{ln}".parse::<{TYPE[ptype]}>().unwrap()'


def sketch(rp):
    spec = rp.get("spec", {})
    ptype = spec.get("ptype", "u8")
    if ptype not in WIDTH or spec.get("engine", "explore") not in ("explore", "histories", "pairs", "selfpairs", "eqpairs", "sched"):
        return None
    is_set = spec.get("kind") == "set"
    lines = [f"use prefix_trie::*; use prefix_trie::map::Entry;",
             (f"let mut m: PrefixSet<{TYPE[ptype]}> = PrefixSet::new();" if is_set else f"let mut m: PrefixMap<{TYPE[ptype]}, u32> = PrefixMap::new();")]
    for i, h in enumerate(rp.get("history") or []):
        if not isinstance(h, dict) or "key" not in h:
            return None
        p = prefix(ptype, h["key"], h.get("rep", 0))
        v = (i + 1) * 1000
        k, arg = h["kind"], h.get("arg", 0)
        if is_set:
            s = {"Insert": f"m.insert({p});", "Remove": f"m.remove(&{p});", "RemoveKeepTree": f"m.remove_keep_tree(&{p});", "RemoveChildren": f"m.remove_children(&{p});",
                 "Clear": "m.clear();", "Recollect": "m = m.into_iter().collect();", "CloneSelf": "m = m.clone();",
                 "ViewSet": f"(&mut m).view_mut_at({p}).map(|mut v| v.set(()));", "ViewRemove": f"(&mut m).view_mut_at({p}).map(|mut v| v.remove());"}.get(k)
        else:
            s = {
                "Insert": f"m.insert({p}, {v});",
                "EntryInsert": f"m.entry({p}).insert({v});",
                "EntryOrInsert": f"*m.entry({p}).or_insert({v}) = {v + 1};",
                "EntryOrInsertWith": f"*m.entry({p}).or_insert_with(|| {v}) = {v + 1};",
                "EntryOrDefault": f"*m.entry({p}).or_default() = {v + 1};",
                "EntryAndModifyOrInsert": f"m.entry({p}).and_modify(|x| *x = {v}).or_insert({v + 1});",
                "EntryMatch": [f"match m.entry({p}) {{ Entry::Vacant(e) => {{ *e.insert({v}) = {v + 1}; }} Entry::Occupied(e) => {{ e.insert({v}); }} }}",
                               f"match m.entry({p}) {{ Entry::Vacant(e) => {{ *e.insert_with(|| {v}) = {v + 1}; }} Entry::Occupied(e) => {{ e.remove(); }} }}",
                               f"match m.entry({p}) {{ Entry::Vacant(e) => {{ *e.default() = {v + 1}; }} Entry::Occupied(mut e) => {{ *e.get_mut() = {v}; }} }}"][min(arg, 2)],
                "Remove": f"m.remove(&{p});", "RemoveKeepTree": f"m.remove_keep_tree(&{p});", "RemoveChildren": f"m.remove_children(&{p});", "Clear": "m.clear();",
                "GetMutWrite": f"if let Some(x) = m.get_mut(&{p}) {{ *x = {v}; }}",
                "GetLpmMutWrite": f"if let Some((_, x)) = m.get_lpm_mut(&{p}) {{ *x = {v}; }}",
                "IterMutWrite": f"for (i, (_, x)) in m.iter_mut().enumerate() {{ *x = {v} + i as u32; }}",
                "ValuesMutWrite": f"for (i, x) in m.values_mut().enumerate() {{ *x = {v} + i as u32; }}",
                "ChildrenMutWrite": f"for (i, (_, x)) in m.children_mut(&{p}).enumerate() {{ *x = {v} + i as u32; }}",
                "ViewSet": (f"{NAV[arg].format(p=p)}.map(|mut v| v.set({v}));" if arg < 8 else f"// view_mut_at(universe key #{arg - 8}) then find_exact(&{p}) then set({v})"),
                "ViewRemove": (f"{NAV[arg].format(p=p)}.map(|mut v| v.remove());" if arg < 8 else f"// view_mut_at(universe key #{arg - 8}) then find_exact(&{p}) then remove()"),
                "ViewWrite": f"// write through accessor #{arg} (0 value_mut, 1 prefix_value_mut, 2 iter_mut, 3 values_mut, 4 into_iter) of m.view_mut_at({p})",
                "CloneSelf": "m = m.clone();", "Recollect": "m = m.into_iter().collect();", "RecollectRev": "m = m.into_iter().collect::<Vec<_>>().into_iter().rev().collect();",
                "IntoChildrenCollect": f"m = m.into_children(&{p}).collect();",
            }.get(k)
        if s is None:
            s = f"// {h.get('text', k)}"
        lines.append(s)
    lines.append(f"// then: {rp.get('site')} [{rp.get('cond')}] -- {str(rp.get('detail'))[:300]}")
    return lines
