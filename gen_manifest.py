#!/usr/bin/env python3
"""Regenerate MANIFEST.json from the tables in manifest_data.py (keeps it consistent with plans.py)."""
import json, os, subprocess, sys
ROOT = os.path.dirname(os.path.abspath(__file__))
sys.path.insert(0, ROOT)
import manifest_data as md
import plans

def main():
    props = [json.loads(l) for l in open(os.path.join(ROOT, "properties.jsonl"))]
    checks, na = [], []
    for p in props:
        pid = p["id"]
        if pid in md.CHECKS and pid in plans.PLANS:
            c = md.CHECKS[pid]
            checks.append({
                "property_id": pid,
                "quick_cmd": f"./check {pid} --tier quick",
                "thorough_cmd": f"./check {pid} --tier thorough",
                "evidence_file": f"evidence/{pid}.json",
                "replay_cmd_template": f"./check {pid} --replay {{path}}",
                "engine": c["engine"],
                "level_claimed": {"category": plans.LEVELS.get(pid, "model_checking"), "text": c["text"], "design_ref": c["design_ref"]},
                "level_note": c["note"],
                "technique": c["technique"],
            })
        else:
            na.append({"property_id": pid, "reason": md.NOT_APPLICABLE.get(pid, "check not built yet in this session; see DESIGN.md section 3 for the planned bounded-exhaustive exploration")})
    hooks_commits = subprocess.run(["git", "-C", "/repo", "log", "--format=%H", "--grep=^verif-hooks"], stdout=subprocess.PIPE, text=True).stdout.split()
    m = {
        "version": 1,
        "setup_cmd": "./setup.sh",
        "hooks": {
            "guard": "verif-hooks",
            "enable": "cargo feature `verif-hooks` of prefix-trie, switched on by the path dependency in harness/Cargo.toml (and sched/Cargo.toml)",
            "baseline_off_cmd": "cd /repo && cargo nextest run --workspace --no-fail-fast --offline || cargo test --workspace --no-fail-fast --offline",
            "source_commits": hooks_commits,
            "add_only": True,
        },
        "engines": md.ENGINES,
        "checks": checks,
        "notes": md.NOTES,
        "not_applicable": na,
    }
    json.dump(m, open(os.path.join(ROOT, "MANIFEST.json"), "w"), indent=1)
    print(f"MANIFEST.json: {len(checks)} checks, {len(na)} not claimed")

if __name__ == "__main__":
    main()
