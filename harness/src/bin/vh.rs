//! `vh batch <spec.json> <out.json>`: run a list of engine runs on a thread pool.
//! `vh replay <replay.json>`: re-execute a recorded counterexample twice.

use std::sync::atomic::{AtomicUsize, Ordering};
use std::sync::Mutex;
use std::time::Duration;

use serde_json::{json, Value};

use vharness::arena::KeyOpts;
use vharness::dispatch_ptype;
use vharness::explore::{explore, history_of, Config, Found, Report};
use vharness::ops::{Alphabet, Op};
use vharness::ptypes::PType;
use vharness::registry;
use vharness::universe::{Embed, Universe};

#[global_allocator]
static ALLOC: vharness::viol::GuardedAlloc = vharness::viol::GuardedAlloc;

fn s<'a>(v: &'a Value, k: &str, d: &'a str) -> &'a str {
    v.get(k).and_then(|x| x.as_str()).unwrap_or(d)
}
fn u(v: &Value, k: &str, d: u64) -> u64 {
    v.get(k).and_then(|x| x.as_u64()).unwrap_or(d)
}
fn b(v: &Value, k: &str, d: bool) -> bool {
    v.get(k).and_then(|x| x.as_bool()).unwrap_or(d)
}
fn strs(v: &Value, k: &str) -> Vec<String> {
    v.get(k).and_then(|x| x.as_array()).map(|a| a.iter().filter_map(|x| x.as_str().map(|s| s.to_string())).collect()).unwrap_or_default()
}

pub fn op_json(op: &Op, uni: &Universe) -> Value {
    let k = uni.keys.get(op.key as usize).copied().unwrap_or((0, 0));
    json!({"kind": format!("{:?}", op.kind), "key_id": op.key, "key": [format!("{:#034x}", k.0), k.1], "rep": op.rep, "arg": op.arg, "text": op.describe(uni)})
}

fn found_json(f: &Found, uni: &Universe) -> Value {
    json!({
        "property": f.viol.prop, "site": f.viol.site, "cond": f.viol.cond, "detail": f.viol.detail,
        "at": f.at, "occurrences": f.occurrences,
        "history": f.history.iter().map(|o| op_json(o, uni)).collect::<Vec<_>>(),
    })
}

fn report_json(r: &Report, uni: &Universe, spec: &Value) -> Value {
    json!({
        "spec": spec, "run": r.run, "engine": "explore",
        "states": r.states, "shape_states": r.shape_states, "canonical_states": r.canonical_states,
        "transitions": r.transitions, "self_loops": r.self_loops, "layers": r.layers,
        "observer_evals": r.observer_evals, "pruned": r.pruned, "known_hits": r.known_hits,
        "op_counts": r.op_counts, "exhaustive": r.exhaustive, "cap_hit": r.cap_hit,
        "digest": format!("{:016x}", r.digest), "wall_s": r.wall_s, "samples": r.samples,
        "max_arena_len": r.max_arena_len, "n_keys": uni.keys.len(), "n_queries": uni.queries.len(),
        "found": r.found.iter().map(|f| found_json(f, uni)).collect::<Vec<_>>(),
    })
}

fn config_of(spec: &Value, idx: usize) -> Config {
    let alpha = match s(spec, "alpha", "full") {
        "structural" => Alphabet::Structural,
        "canonical" => Alphabet::Canonical,
        "repr" => Alphabet::Repr,
        _ => Alphabet::Full,
    };
    let threads = u(spec, "threads", 1) as usize;
    Config {
        alpha,
        key_opts: KeyOpts { reps: b(spec, "reps", false), layout: b(spec, "layout", false), no_free: b(spec, "no_free", false) },
        rep_mode: u(spec, "rep_mode", if b(spec, "reps", false) { 2 } else { 0 }) as u8,
        retain_all_subsets: b(spec, "retain_all", true),
        threads,
        max_states: u(spec, "max_states", 20_000_000) as usize,
        max_wall_s: spec.get("max_wall_s").and_then(|x| x.as_f64()).unwrap_or(3000.0),
        stop_props: strs(spec, "stop_props"),
        known: spec
            .get("known")
            .and_then(|x| x.as_array())
            .map(|a| a.iter().filter_map(|t| Some((t.get(0)?.as_str()?.to_string(), t.get(1)?.as_str()?.to_string(), t.get(2)?.as_str()?.to_string()))).collect())
            .unwrap_or_default(),
        worker_base: (idx * threads) % 48,
        deep: b(spec, "deep", false),
        run_label: format!("{} {} {}/{} {} reps={} layout={}", s(spec, "kind", "map"), s(spec, "ptype", "u8"), s(spec, "universe", "U2"), s(spec, "embed", "hi"), s(spec, "alpha", "full"), b(spec, "reps", false), b(spec, "layout", false)),
    }
}

fn run_explore<P: PType>(spec: &Value, idx: usize) -> Value {
    let embed = match s(spec, "embed", "hi") {
        "lo" => Embed::Lo,
        "mid" => Embed::Mid,
        _ => Embed::Hi,
    };
    let uni = Universe::new(s(spec, "universe", "U2"), embed, P::WIDTH);
    let cfg = config_of(spec, idx);
    let obs_names = strs(spec, "observers");
    let rep = if s(spec, "kind", "map") == "set" {
        let obs = registry::set_observers::<P>(&obs_names);
        explore::<prefix_trie::PrefixSet<P>>(&uni, &cfg, &obs)
    } else {
        let obs = registry::map_observers::<P>(&obs_names);
        explore::<prefix_trie::PrefixMap<P, u32>>(&uni, &cfg, &obs)
    };
    report_json(&rep, &uni, spec)
}

fn run_one(spec: &Value, idx: usize) -> Value {
    let ptype = s(spec, "ptype", "u8").to_string();
    match s(spec, "engine", "explore") {
        "explore" => dispatch_ptype!(ptype.as_str(), run_explore(spec, idx)),
        other => registry::run_other_engine(other, spec, idx),
    }
}

fn main() {
    vharness::viol::install_quiet_panic_hook();
    let args: Vec<String> = std::env::args().collect();
    match args.get(1).map(|x| x.as_str()) {
        Some("batch") => {
            let spec: Value = serde_json::from_str(&std::fs::read_to_string(&args[2]).expect("read spec")).expect("parse spec");
            let out_path = args[3].clone();
            let runs: Vec<Value> = spec.get("runs").and_then(|x| x.as_array()).cloned().unwrap_or_default();
            let jobs = u(&spec, "jobs", 16) as usize;
            let stall_s = u(&spec, "stall_s", 30);
            // watchdog: a library call pending for too long is reported as divergence
            {
                let out_path = out_path.clone();
                vharness::viol::start_watchdog(Duration::from_secs(stall_s), move |info| {
                    let hist = history_of(&info.hist);
                    let v = json!({"stall": {"run": info.run, "at": info.at, "history": hist.iter().map(|o| format!("{:?}", o)).collect::<Vec<_>>(), "history_ops": hist.iter().map(|o| json!({"kind": format!("{:?}", o.kind), "key_id": o.key, "rep": o.rep, "arg": o.arg})).collect::<Vec<_>>(), "op": info.op.map(|o| json!({"kind": format!("{:?}", o.kind), "key_id": o.key, "rep": o.rep, "arg": o.arg})), "seconds": stall_s}});
                    let _ = std::fs::write(format!("{out_path}.stall"), serde_json::to_string_pretty(&v).unwrap());
                    println!("STALL {}", v);
                    std::process::exit(3);
                });
            }
            {
                let out_path = out_path.clone();
                vharness::viol::install_crash_handler(move |info, why| {
                    let Some(info) = info else {
                        println!("CRASH outside a library call: {why}");
                        std::process::exit(4);
                    };
                    let hist = history_of(&info.hist);
                    let v = json!({"stall": {"run": info.run, "at": info.at, "why": why, "history": hist.iter().map(|o| format!("{:?}", o)).collect::<Vec<_>>(), "history_ops": hist.iter().map(|o| json!({"kind": format!("{:?}", o.kind), "key_id": o.key, "rep": o.rep, "arg": o.arg})).collect::<Vec<_>>(), "op": info.op.map(|o| json!({"kind": format!("{:?}", o.kind), "key_id": o.key, "rep": o.rep, "arg": o.arg})), "seconds": 0}});
                    let _ = std::fs::write(format!("{out_path}.stall"), serde_json::to_string_pretty(&v).unwrap());
                    println!("CRASH {}", v);
                    std::process::exit(3);
                });
            }
            let next = AtomicUsize::new(0);
            let results: Mutex<Vec<(usize, Value)>> = Mutex::new(vec![]);
            std::thread::scope(|sc| {
                for _ in 0..jobs.min(runs.len()).max(1) {
                    sc.spawn(|| loop {
                        let i = next.fetch_add(1, Ordering::SeqCst);
                        if i >= runs.len() {
                            break;
                        }
                        let r = vharness::viol::guarded(|| run_one(&runs[i], i));
                        let v = match r {
                            Ok(v) => v,
                            Err(msg) => json!({"spec": runs[i], "machinery_error": msg}),
                        };
                        results.lock().unwrap().push((i, v));
                    });
                }
            });
            let mut res = results.into_inner().unwrap();
            res.sort_by_key(|x| x.0);
            let out = json!({"runs": res.into_iter().map(|x| x.1).collect::<Vec<_>>()});
            std::fs::write(&out_path, serde_json::to_string(&out).unwrap()).expect("write out");
        }
        Some("replay") => {
            let path = args[2].clone();
            vharness::viol::install_crash_handler(move |_, why| {
                let prop = std::fs::read_to_string(&path).ok().and_then(|s| serde_json::from_str::<Value>(&s).ok()).and_then(|v| v["property"].as_str().map(|s| s.to_string())).unwrap_or_default();
                println!("observed: {why} while replaying");
                println!("VIOLATION property={prop} replay={path}");
                std::process::exit(1);
            });
            {
                // a replay normally takes milliseconds: 60 s of CPU time means the recorded call diverges
                let path = args[2].clone();
                std::thread::spawn(move || loop {
                    std::thread::sleep(Duration::from_millis(500));
                    let mut ts: libc::timespec = unsafe { std::mem::zeroed() };
                    unsafe { libc::clock_gettime(libc::CLOCK_PROCESS_CPUTIME_ID, &mut ts) };
                    if ts.tv_sec >= 60 {
                        let prop = std::fs::read_to_string(&path).ok().and_then(|s| serde_json::from_str::<Value>(&s).ok()).and_then(|v| v["property"].as_str().map(|s| s.to_string())).unwrap_or_default();
                        println!("observed: the replayed call sequence does not return (60 s of CPU time)");
                        println!("VIOLATION property={prop} replay={path}");
                        std::process::exit(1);
                    }
                });
            }
            let code = registry::replay(&args[2]);
            std::process::exit(code);
        }
        _ => {
            eprintln!("usage: vh batch <spec.json> <out.json> | vh replay <replay.json>");
            std::process::exit(2);
        }
    }
}
