#!/usr/bin/env python3
"""Generate seeded/RESULTS.md from seeded/*/meta.json."""
import glob, json, os, re
rows = []
for d in sorted(glob.glob('/verif/seeded/*/meta.json')):
    m = json.load(open(d))
    notes = m.get('needs_to_manifest', '')
    first = next((l.strip('# *-').strip() for l in notes.splitlines() if len(l.strip()) > 25), '')
    det = ', '.join(m.get('detected_by', [])) or '**none**'
    missed = ', '.join(k for k, v in m.get('checks', {}).items() if not v['detected'])
    rows.append((m['seed'], m['property'], 'yes' if m.get('confirmed') else 'NO', det, missed, first[:140].replace('|', '/')))
out = ["# Seeded property-breaking changes and the checks that catch them", "",
       "Each directory holds `patch.diff` (against /repo HEAD), `demo.rs` (fails with the patch, passes without), `notes.md` (author's notes) and `meta.json` (what was run).",
       "Seeds Cxx* were written by independent sub-agents that saw only the property text; seeds R1-R8 re-introduce the eight upstream defects that were repaired (`fix:` commits).",
       "`confirmed` = the patch applies, the crate builds, the 150 baseline tests pass with it, the demo fails with it and passes without it (all re-run by tools/seedtest.py in a scratch worktree).", "",
       "| seed | breaks | confirmed | detected by (quick tier) | also run, silent | what it is |", "|---|---|---|---|---|---|"]
for r in rows:
    out.append("| " + " | ".join(r) + " |")
n = len(rows)
own = sum(1 for r in rows if r[1] in r[3].split(', '))
out += ["", f"{n} seeds; {own} are reported by the check of the property they were written against; {sum(1 for r in rows if r[3] != '**none**')} by at least one check."]
open('/verif/seeded/RESULTS.md', 'w').write("\n".join(out) + "\n")
print("\n".join(out[-3:]))
