//! C20: handle-level call sequences (entries, mutable views) and fault injection into every
//! user callback at every invocation index.

use std::cell::Cell;

use prefix_trie::map::Entry;
use prefix_trie::{AsView, AsViewMut, PrefixMap, TrieViewMut};

use crate::arena::walk;
use crate::explore::compare_entries;
use crate::model::{covers, norm, Model, Obs};
use crate::obs::MapSt;
use crate::ops::{cap, collect_iter, expected_child, mkp, obs, Cx};
use crate::ptypes::{PType, GK};
use crate::viol::{guarded, Viol};

/// validate a map against a model after a handle program / an injected fault
fn validate<P: PType>(out: &mut Vec<Viol>, what: &str, map: &PrefixMap<P, u32>, model: &Model, width: u8, prop_contents: &'static str) {
    let d = map.verif_dump();
    let (_, vs, _) = walk(&d, width);
    for mut v in vs {
        v.detail = format!("{what}: {}", v.detail);
        // inside the C20 suite, a broken map after a panic is a C20 violation
        if prop_contents == "C20" {
            v.cond = format!("{}-after-panic", v.cond);
            v.prop = "C20";
        }
        out.push(v);
    }
    if map.len() != model.len() {
        out.push(Viol::new(if prop_contents == "C20" { "C20" } else { "C04" }, "PrefixMap::len", if prop_contents == "C20" { "len-after-panic" } else { "len-vs-model" }, format!("{what}: len()={} entries={}", map.len(), model.len())));
    }
    if let Some(mut v) = compare_entries("PrefixMap::iter", &collect_iter(map), &model.entries()) {
        if prop_contents == "C20" {
            v.prop = "C20";
            v.cond = "contents-after-panic".into();
        }
        v.detail = format!("{what}: {}", v.detail);
        out.push(v);
    }
}

const ENTRY_NC: [&str; 3] = ["get", "get_mut=", "key"];
const ENTRY_C: [&str; 10] = ["insert", "or_insert", "or_insert_with", "or_default", "and_modify+or_insert", "occ.insert|vac.insert", "occ.remove|vac.insert_with", "occ.get_mut=|vac.default", "occ.get,key,remove|vac.key,insert", "drop"];

/// run one entry program; returns Err(panic message)
fn entry_program<P: PType>(map: &mut PrefixMap<P, u32>, model: &mut Model, k: GK, nc: &[usize], c: usize, out: &mut Vec<Viol>) {
    let nk = norm(k);
    let stored: GK = if P::KEEPS_HOST { k } else { nk };
    let mut e = map.entry(mkp::<P>(k));
    let mut tok = 40_000u32;
    for &i in nc {
        match i {
            0 => {
                let g = e.get().copied();
                if g != model.get(nk).map(|x| x.val) {
                    out.push(Viol::new("C01", "Entry::get", "value", format!("{:?} vs {:?}", g, model.get(nk))));
                }
            }
            1 => {
                if let Some(v) = e.get_mut() {
                    tok += 1;
                    *v = tok;
                    if model.get(nk).is_some() {
                        model.set_val(nk, tok);
                    }
                }
            }
            _ => {
                let _ = e.key().raw();
            }
        }
    }
    let had = model.get(nk).map(|x| x.val);
    tok += 1;
    match c {
        0 => {
            let _ = e.insert(tok);
            model.insert(stored, tok);
        }
        1 => {
            let _ = *e.or_insert(tok);
            if had.is_none() {
                model.insert(stored, tok);
            }
        }
        2 => {
            let _ = *e.or_insert_with(|| tok);
            if had.is_none() {
                model.insert(stored, tok);
            }
        }
        3 => {
            let _ = *e.or_default();
            if had.is_none() {
                model.insert(stored, 0);
            }
        }
        4 => {
            let _ = *e.and_modify(|v| *v = tok).or_insert(tok + 1);
            if had.is_some() {
                model.set_val(nk, tok);
            } else {
                model.insert(stored, tok + 1);
            }
        }
        5..=8 => match e {
            Entry::Occupied(mut o) => match c {
                5 => {
                    let _ = o.insert(tok);
                    model.insert(stored, tok);
                }
                6 => {
                    let _ = o.remove();
                    model.remove(nk);
                }
                7 => {
                    *o.get_mut() = tok;
                    model.set_val(nk, tok);
                }
                _ => {
                    let _ = (*o.get(), o.key().raw());
                    let _ = o.remove();
                    model.remove(nk);
                }
            },
            Entry::Vacant(v) => match c {
                5 => {
                    let _ = *v.insert(tok);
                    model.insert(stored, tok);
                }
                6 => {
                    let _ = *v.insert_with(|| tok);
                    model.insert(stored, tok);
                }
                7 => {
                    let _ = *v.default();
                    model.insert(stored, 0);
                }
                _ => {
                    let _ = v.key().raw();
                    let _ = *v.insert(tok);
                    model.insert(stored, tok);
                }
            },
        },
        _ => drop(e),
    }
}

const VIEW_NC: [&str; 12] = ["value", "value_mut=", "prefix", "prefix_value", "prefix_value_mut=", "set", "remove", "iter_mut=", "values_mut", "has_left", "has_right", "view().iter"];
const VIEW_C: [&str; 9] = ["left", "right", "split", "find", "find_exact", "find_lpm", "into_iter", "view_mut_at", "drop"];

/// one non-consuming call on a mutable view positioned at `pos`
fn view_nc<P: PType>(v: &mut TrieViewMut<P, u32>, model: &mut Model, pos: GK, is_node: bool, i: usize, tok: &mut u32, out: &mut Vec<Viol>) {
    *tok += 1;
    match i {
        0 => {
            let g = v.value().copied();
            if g != model.get(pos).map(|x| x.val) {
                out.push(Viol::new("C11", "TrieViewMut::value", "value", format!("view at {:x?}: {:?} vs {:?}", pos, g, model.get(pos))));
            }
        }
        1 => {
            if let Some(x) = v.value_mut() {
                *x = *tok;
                if model.get(pos).is_some() {
                    model.set_val(pos, *tok);
                }
            }
        }
        2 => {
            let _ = v.prefix().raw();
        }
        3 => {
            let _ = v.prefix_value().map(|(p, x)| obs(p, x));
        }
        4 => {
            if let Some((_, x)) = v.prefix_value_mut() {
                *x = *tok;
                if model.get(pos).is_some() {
                    model.set_val(pos, *tok);
                }
            }
        }
        5 => {
            let repr = v.prefix().raw();
            match v.set(*tok) {
                Ok(old) => {
                    if old != model.get(pos).map(|x| x.val) {
                        out.push(Viol::new("C01", "TrieViewMut::set", "return-value", format!("view at {:x?}: {:?} vs {:?}", pos, old, model.get(pos))));
                    }
                    if model.get(pos).is_some() {
                        model.set_val(pos, *tok);
                    } else {
                        model.insert(repr, *tok);
                    }
                    if !is_node {
                        out.push(Viol::new("C11", "TrieViewMut::set", "set-succeeded-on-virtual", format!("view at {:x?}", pos)));
                    }
                }
                Err(_) => {
                    if is_node {
                        out.push(Viol::new("C11", "TrieViewMut::set", "set-failed-on-node", format!("view at {:x?}", pos)));
                    }
                }
            }
        }
        6 => {
            let got = v.remove();
            let want = model.remove(pos);
            if got != want {
                out.push(Viol::new("C01", "TrieViewMut::remove", "return-value", format!("view at {:x?}: {:?} vs {:?}", pos, got, want)));
            }
        }
        7 => {
            let lim = cap(model.len());
            let keys: Vec<GK> = v
                .iter_mut()
                .take(lim)
                .enumerate()
                .map(|(j, (p, x))| {
                    *x = *tok + j as u32;
                    p.raw()
                })
                .collect();
            for (j, k) in keys.iter().enumerate() {
                if model.get(*k).is_some() {
                    model.set_val(*k, *tok + j as u32);
                }
            }
            *tok += keys.len() as u32;
        }
        8 => {
            let n = v.values_mut().take(cap(model.len())).count();
            let want = model.under(pos).len();
            if n != want {
                out.push(Viol::new("C13", "TrieViewMut::values_mut", "yield-sequence", format!("view at {:x?}: {} values, model {}", pos, n, want)));
            }
        }
        9 => {
            let _ = v.has_left();
        }
        10 => {
            let _ = v.has_right();
        }
        _ => {
            let n = (&*v).view().iter().take(cap(model.len())).count();
            let want = model.under(pos).len();
            if n != want {
                out.push(Viol::new("C11", "&TrieViewMut::view", "contents", format!("view at {:x?}: {} entries, model {}", pos, n, want)));
            }
        }
    }
}

/// C20(b): every sequence of up to `L` non-consuming calls followed by one consuming call, on
/// entry handles and on mutable views, for every key of the universe
pub fn handles<P: PType>(st: &MapSt<P>, cx: &Cx) -> (Vec<Viol>, u64) {
    let mut out = vec![];
    let mut n = 0u64;
    let max_len = if cx.deep { 3 } else { 2 };
    // all sequences of length <= max_len over an alphabet of size a
    let seqs = |a: usize| -> Vec<Vec<usize>> {
        let mut all: Vec<Vec<usize>> = vec![vec![]];
        let mut last: Vec<Vec<usize>> = vec![vec![]];
        for _ in 0..max_len {
            let mut next = vec![];
            for s in &last {
                for i in 0..a {
                    let mut t = s.clone();
                    t.push(i);
                    next.push(t);
                }
            }
            all.extend(next.iter().cloned());
            last = next;
        }
        all
    };
    let entry_seqs = seqs(ENTRY_NC.len());
    let view_seqs = seqs(VIEW_NC.len());
    for (ki, &k) in cx.uni.keys.iter().enumerate() {
        let k = crate::universe::with_rep(k, (ki % 2) as u8, cx.uni.width);
        let nk = norm(k);
        // ---- entry handles
        for s in &entry_seqs {
            for c in 0..ENTRY_C.len() {
                let mut map = st.map.clone();
                let mut model = st.model.clone();
                let mut vs = vec![];
                n += 1;
                let what = || format!("entry({:x?}) . {} . {}", k, s.iter().map(|i| ENTRY_NC[*i]).collect::<Vec<_>>().join(" . "), ENTRY_C[c]);
                match guarded(|| entry_program::<P>(&mut map, &mut model, k, s, c, &mut vs)) {
                    Err(msg) => out.push(Viol::new("C20", "Entry handle sequence", "panic", format!("{}: {msg}", what()))),
                    Ok(()) => {
                        out.append(&mut vs);
                        validate(&mut out, &what(), &map, &model, cx.uni.width, "C01");
                    }
                }
            }
        }
        // ---- mutable view handles
        if st.map.view_at(mkp::<P>(k)).is_none() {
            continue;
        }
        let is_node = st.walk().nodes.iter().any(|nd| nd.key == nk);
        for s in &view_seqs {
            for c in 0..VIEW_C.len() {
                let mut map = st.map.clone();
                let mut model = st.model.clone();
                let mut vs = vec![];
                n += 1;
                let what = || format!("view_mut_at({:x?}) . {} . {}", k, s.iter().map(|i| VIEW_NC[*i]).collect::<Vec<_>>().join(" . "), VIEW_C[c]);
                let r = guarded(|| {
                    let Some(mut v) = map.view_mut_at(mkp::<P>(k)) else { return };
                    let mut tok = 50_000u32;
                    for &i in s {
                        view_nc(&mut v, &mut model, nk, is_node, i, &mut tok, &mut vs);
                    }
                    // consuming call, then touch the result
                    let lim = cap(model.len());
                    let mut write_all = |w: TrieViewMut<P, u32>, model: &mut Model| {
                        tok += 100;
                        let keys: Vec<GK> = w
                            .into_iter()
                            .take(lim)
                            .enumerate()
                            .map(|(j, (p, x))| {
                                *x = tok + j as u32;
                                p.raw()
                            })
                            .collect();
                        for (j, kk) in keys.iter().enumerate() {
                            if model.get(*kk).is_some() {
                                model.set_val(*kk, tok + j as u32);
                            }
                        }
                    };
                    match c {
                        0 => {
                            if let Ok(w) = v.left() {
                                write_all(w, &mut model)
                            }
                        }
                        1 => {
                            if let Ok(w) = v.right() {
                                write_all(w, &mut model)
                            }
                        }
                        2 => {
                            let (l, r) = v.split();
                            if let Some(w) = l {
                                write_all(w, &mut model)
                            }
                            if let Some(w) = r {
                                write_all(w, &mut model)
                            }
                        }
                        3 => match v.find(mkp::<P>(k)) {
                            Ok(w) | Err(w) => write_all(w, &mut model),
                        },
                        4 => match v.find_exact(&mkp::<P>(k)) {
                            Ok(w) | Err(w) => write_all(w, &mut model),
                        },
                        5 => match v.find_lpm(&mkp::<P>(k)) {
                            Ok(w) | Err(w) => write_all(w, &mut model),
                        },
                        6 => write_all(v, &mut model),
                        7 => {
                            if let Some(w) = v.view_mut_at(mkp::<P>(k)) {
                                write_all(w, &mut model)
                            }
                        }
                        _ => drop(v),
                    }
                });
                match r {
                    Err(msg) => out.push(Viol::new("C20", "TrieViewMut handle sequence", "panic", format!("{}: {msg}", what()))),
                    Ok(()) => {
                        out.append(&mut vs);
                        validate(&mut out, &what(), &map, &model, cx.uni.width, "C01");
                    }
                }
            }
        }
        let _ = expected_child;
    }
    (out, n)
}

thread_local! {
    static DEFAULT_PANICS: Cell<bool> = const { Cell::new(false) };
}

/// a value type whose `Default` panics on demand
#[derive(Clone, Debug, PartialEq)]
pub struct Pv(pub u32);
impl Default for Pv {
    fn default() -> Self {
        if DEFAULT_PANICS.with(|c| c.get()) {
            panic!("injected fault in Default::default");
        }
        Pv(0)
    }
}

/// C20(c): a panic injected at every invocation index of every user callback
pub fn faults<P: PType>(st: &MapSt<P>, cx: &Cx) -> (Vec<Viol>, u64) {
    let mut out = vec![];
    let mut n = 0u64;
    let before = st.model.entries();
    let ids: Vec<usize> = before.iter().filter_map(|o| cx.uni.key_id(norm((o.0, o.1)))).collect();
    // ---- retain: every keep-subset x every invocation index
    let subsets: Vec<u32> = (0..(1u32 << ids.len().min(10))).collect();
    for sub in subsets {
        let mut mask = 0u32;
        for (i, id) in ids.iter().enumerate() {
            if (sub >> i) & 1 == 1 {
                mask |= 1 << id;
            }
        }
        let keep = |o: &Obs| -> bool { cx.uni.key_id(norm((o.0, o.1))).map(|id| mask.checked_shr(id as u32).map(|x| x & 1 == 1).unwrap_or(false)).unwrap_or(true) };
        for fault_at in 0..before.len() {
            let mut map = st.map.clone();
            let mut rejected: Vec<GK> = vec![];
            let mut calls = 0usize;
            n += 1;
            let r = guarded(|| {
                map.retain(|p, v| {
                    let o = obs(p, v);
                    if calls == fault_at {
                        panic!("injected fault in retain predicate");
                    }
                    calls += 1;
                    let k = keep(&o);
                    if !k {
                        rejected.push(norm((o.0, o.1)));
                    }
                    k
                })
            });
            let what = format!("retain(keep mask {mask:#b}) with a panic at predicate call {fault_at}");
            match r {
                Ok(()) => out.push(Viol::new("C10", "PrefixMap::retain", "predicate-once-per-entry", format!("{what}: the predicate was called fewer than {} times", fault_at + 1))),
                Err(msg) if !msg.contains("injected fault") => out.push(Viol::new("C20", "PrefixMap::retain", "panic", format!("{what}: {msg}"))),
                Err(_) => {
                    let mut model = st.model.clone();
                    for k in &rejected {
                        model.remove(*k);
                    }
                    validate(&mut out, &what, &map, &model, cx.uni.width, "C20");
                    // the map must stay usable: empty it entry by entry
                    let r2 = guarded(|| {
                        for k in model.keys() {
                            map.remove(&mkp::<P>(k));
                        }
                        (map.len(), map.iter().take(4).count())
                    });
                    match r2 {
                        Ok((0, 0)) => {}
                        Ok(x) => out.push(Viol::new("C20", "PrefixMap::retain", "map-poisoned-after-panic", format!("{what}: after removing every entry len/iter = {:?}", x))),
                        Err(msg) => out.push(Viol::new("C20", "PrefixMap::retain", "map-poisoned-after-panic", format!("{what}: {msg}"))),
                    }
                }
            }
        }
    }
    // ---- closures of the Entry API: the map must be unchanged
    for &k in &cx.uni.keys {
        for which in 0..3 {
            let mut map = st.map.clone();
            n += 1;
            let r = guarded(|| match which {
                0 => {
                    let _ = map.entry(mkp::<P>(k)).or_insert_with(|| panic!("injected fault in or_insert_with"));
                }
                1 => {
                    if let Entry::Vacant(v) = map.entry(mkp::<P>(k)) {
                        let _ = v.insert_with(|| panic!("injected fault in insert_with"));
                    }
                }
                _ => {
                    let _ = map.entry(mkp::<P>(k)).and_modify(|_| panic!("injected fault in and_modify")).or_insert(1);
                }
            });
            let what = format!("{} on {:x?} with a panicking closure", ["or_insert_with", "insert_with", "and_modify"][which], k);
            match r {
                Err(msg) if !msg.contains("injected fault") => out.push(Viol::new("C20", "Entry closure", "panic", format!("{what}: {msg}"))),
                Err(_) => validate(&mut out, &what, &map, &st.model, cx.uni.width, "C20"),
                Ok(()) => {
                    // the closure was not needed (entry present / absent): the map holds the model (+ the inserted 1)
                    let mut model = st.model.clone();
                    if which == 2 && model.get(k).is_none() {
                        model.insert(if P::KEEPS_HOST { k } else { norm(k) }, 1);
                    }
                    validate(&mut out, &what, &map, &model, cx.uni.width, "C20");
                }
            }
        }
    }
    // ---- a panicking Default impl (or_default / VacantEntry::default), on the canonical rebuild
    if crate::arena::is_canonical(st.walk()) {
        let pv: PrefixMap<P, Pv> = st.map.iter().map(|(p, v)| (p.clone(), Pv(*v))).collect();
        for &k in &cx.uni.keys {
            for which in 0..2 {
                let mut map = pv.clone();
                n += 1;
                DEFAULT_PANICS.with(|c| c.set(true));
                let r = guarded(|| match which {
                    0 => {
                        let _ = map.entry(mkp::<P>(k)).or_default();
                    }
                    _ => {
                        if let Entry::Vacant(v) = map.entry(mkp::<P>(k)) {
                            let _ = v.default();
                        }
                    }
                });
                DEFAULT_PANICS.with(|c| c.set(false));
                let got: Vec<Obs> = map.iter().take(cap(before.len())).map(|(p, v)| (p.raw().0, p.raw().1, v.0)).collect();
                let present = st.model.get(k).is_some();
                let what = format!("{} on {:x?} with a panicking Default", ["or_default", "VacantEntry::default"][which], k);
                match r {
                    Err(msg) if !msg.contains("injected fault") => out.push(Viol::new("C20", "Entry default", "panic", format!("{what}: {msg}"))),
                    Err(_) | Ok(()) => {
                        if r.is_ok() && !present {
                            out.push(Viol::new("C01", "Entry::or_default", "default-not-called", what.clone()));
                        }
                        if got != before || map.len() != before.len() {
                            out.push(Viol::new("C20", "Entry default", "contents-after-panic", format!("{what}: map holds {:x?} (len {}), expected {:x?}", got, map.len(), before)));
                        }
                    }
                }
            }
        }
    }
    let _ = covers;
    (out, n)
}
