//! the engines other than the single-map explorer: dispatch and replay
use prefix_trie::{PrefixMap, PrefixSet};
use serde_json::{json, Value};

use crate::arena::KeyOpts;
use crate::dispatch_ptype;
use crate::ops::{Alphabet, Op};
use crate::pairs::{self, PState, RootMode, Side};
use crate::ptypes::{PType, GK};
use crate::registry::{ops_from_json, rebuild};
use crate::universe::{with_rep, Embed, Universe};
use crate::viol::guarded;

fn s<'a>(v: &'a Value, k: &str, d: &'a str) -> &'a str {
    v.get(k).and_then(|x| x.as_str()).unwrap_or(d)
}
fn u(v: &Value, k: &str, d: u64) -> u64 {
    v.get(k).and_then(|x| x.as_u64()).unwrap_or(d)
}

fn uni_of<P: PType>(spec: &Value) -> Universe {
    let embed = match s(spec, "embed", "hi") {
        "lo" => Embed::Lo,
        "mid" => Embed::Mid,
        _ => Embed::Hi,
    };
    Universe::new(s(spec, "universe", "U2"), embed, P::WIDTH)
}

fn ops_json(h: &[Op], uni: &Universe) -> Vec<Value> {
    h.iter()
        .map(|op| {
            let k = uni.keys.get(op.key as usize).copied().unwrap_or((0, 0));
            json!({"kind": format!("{:?}", op.kind), "key_id": op.key, "key": [format!("{:#034x}", k.0), k.1], "rep": op.rep, "arg": op.arg, "text": op.describe(uni)})
        })
        .collect()
}

fn gk_json(k: GK) -> Value {
    json!([format!("{:#034x}", k.0), k.1])
}
fn gk_from(v: &Value) -> GK {
    (u128::from_str_radix(v[0].as_str().unwrap().trim_start_matches("0x"), 16).unwrap(), v[1].as_u64().unwrap() as u8)
}

fn pairs_typed<P: PType, A: Side<P>, B: Side<P>>(spec: &Value, left_kind: &str, right_kind: &str) -> Value {
    let uni = uni_of::<P>(spec);
    let threads = u(spec, "threads", 1) as usize;
    let all_roots = spec.get("all_roots").and_then(|x| x.as_bool()).unwrap_or(false);
    let alpha = if s(spec, "alpha", "structural") == "canonical" { Alphabet::Canonical } else { Alphabet::Structural };
    let (left, rep_l): (Vec<PState<A>>, _) = pairs::gen_states::<P, A>(&uni, 0, alpha, all_roots, threads, "left states");
    let right_alpha = if s(spec, "right_alpha", "") == "canonical" { Alphabet::Canonical } else { alpha };
    let (right, rep_r): (Vec<PState<B>>, _) = pairs::gen_states::<P, B>(&uni, 1, right_alpha, all_roots, threads, "right states");
    let mode = if s(spec, "mode", "all") == "whole" { RootMode::Whole } else { RootMode::All };
    let (m, r) = (u(spec, "a_mod", 1) as usize, u(spec, "a_rem", 0) as usize);
    let filter = move |i: usize| i % m == r;
    let pr = pairs::run_pairs::<P, A, B>(&left, &right, &uni, mode, threads, &filter);
    let found: Vec<Value> = pr
        .found
        .iter()
        .map(|f| {
            json!({
                "property": f.viol.prop, "site": f.viol.site, "cond": f.viol.cond, "detail": f.viol.detail, "at": "pair", "occurrences": f.occurrences,
                "history": ops_json(&left[f.a].hist, &uni),
                "extra": {"b_history": ops_json(&right[f.b].hist, &uni), "root_a": gk_json(f.qa), "root_b": gk_json(f.qb), "right_kind": right_kind, "left_kind": left_kind},
            })
        })
        .collect();
    let sample = left.iter().zip(right.iter().rev()).find(|(a, b)| a.hist.len() >= 3 && b.hist.len() >= 3).map(|(a, b)| {
        json!({"left_history": a.hist.iter().map(|o| o.describe(&uni)).collect::<Vec<_>>(), "right_history": b.hist.iter().map(|o| o.describe(&uni)).collect::<Vec<_>>(), "left_roots": a.roots.len(), "right_roots": b.roots.len()})
    });
    json!({
        "spec": spec, "engine": "pairs", "run": format!("pairs {} {} {} x {} {} roots={:?}", left_kind, P::NAME, uni.name, right_kind, s(spec, "right_alpha", s(spec, "alpha", "structural")), mode),
        "states": rep_l.states + rep_r.states, "shape_states": rep_l.shape_states + rep_r.shape_states, "transitions": rep_l.transitions + rep_r.transitions,
        "left_states": left.len(), "right_states": right.len(), "pairs": pr.pairs, "root_pairs": pr.root_pairs,
        "evaluations": pr.counters.evaluations, "items": pr.counters.items, "both_items": pr.counters.both_items, "lpm_annotations_some": pr.counters.lpm_some,
        "distinct_outcomes": pr.counters.nonempty_results,
        "exhaustive": rep_l.exhaustive && rep_r.exhaustive, "cap_hit": rep_l.cap_hit.or(rep_r.cap_hit), "wall_s": pr.wall_s + rep_l.wall_s + rep_r.wall_s,
        "samples": sample.into_iter().collect::<Vec<_>>(), "found": found,
    })
}

fn run_pairs_engine<P: PType>(spec: &Value) -> Value {
    match (s(spec, "left_kind", "map"), s(spec, "right_kind", "map")) {
        ("set", "set") => pairs_typed::<P, PrefixSet<P>, PrefixSet<P>>(spec, "set", "set"),
        ("set", _) => pairs_typed::<P, PrefixSet<P>, PrefixMap<P, u32>>(spec, "set", "map"),
        (_, "set") => pairs_typed::<P, PrefixMap<P, u32>, PrefixSet<P>>(spec, "map", "set"),
        _ => pairs_typed::<P, PrefixMap<P, u32>, PrefixMap<P, u32>>(spec, "map", "map"),
    }
}

fn run_self_engine<P: PType>(spec: &Value) -> Value {
    let uni = uni_of::<P>(spec);
    let threads = u(spec, "threads", 1) as usize;
    let (states, rep): (Vec<PState<PrefixMap<P, u32>>>, _) = pairs::gen_states::<P, PrefixMap<P, u32>>(&uni, 2, Alphabet::Structural, true, threads, "states");
    let sr = crate::pairs2::run_self::<P>(&states, &uni, threads);
    let found: Vec<Value> = sr
        .found
        .iter()
        .map(|f| json!({"property": f.viol.prop, "site": f.viol.site, "cond": f.viol.cond, "detail": format!("{} [{}]", f.viol.detail, f.what), "at": "selfpair", "occurrences": f.occurrences, "history": ops_json(&states[f.a].hist, &uni)}))
        .collect();
    let sample = states.iter().rev().find(|a| a.hist.len() >= 4).map(|a| json!({"history": a.hist.iter().map(|o| o.describe(&uni)).collect::<Vec<_>>(), "roots": a.roots.len()}));
    json!({
        "spec": spec, "engine": "selfpairs", "run": format!("selfpairs {} {}", P::NAME, uni.name),
        "states": rep.states, "shape_states": rep.shape_states, "transitions": rep.transitions,
        "evaluations": sr.counters.evaluations, "items": sr.counters.items, "distinct_outcomes": sr.counters.nonempty_results,
        "exhaustive": rep.exhaustive, "cap_hit": rep.cap_hit, "wall_s": sr.wall_s + rep.wall_s, "samples": sample.into_iter().collect::<Vec<_>>(), "found": found,
    })
}

fn eq_typed<P: PType, S: crate::pairs2::EqSide<P>>(spec: &Value, kind: &str) -> Value {
    let uni = uni_of::<P>(spec);
    let threads = u(spec, "threads", 1) as usize;
    let (states, rep): (Vec<PState<S>>, _) = pairs::gen_states::<P, S>(&uni, 0, Alphabet::Structural, false, threads, "states");
    let er = crate::pairs2::run_eq::<P, S>(&states, &uni, threads);
    let found: Vec<Value> = er
        .found
        .iter()
        .map(|(v, a, b, var, occ)| {
            json!({"property": v.prop, "site": v.site, "cond": v.cond, "detail": v.detail, "at": "eqpair", "occurrences": occ,
                   "history": ops_json(&states[*a].hist, &uni), "extra": {"b_history": ops_json(&states[*b].hist, &uni), "variant": var, "kind": kind}})
        })
        .collect();
    let sample = states.iter().rev().find(|a| a.hist.len() >= 4).map(|a| json!({"history": a.hist.iter().map(|o| o.describe(&uni)).collect::<Vec<_>>()}));
    json!({
        "spec": spec, "engine": "eqpairs", "run": format!("eqpairs {} {} {}", kind, P::NAME, uni.name),
        "states": rep.states, "shape_states": rep.shape_states, "transitions": rep.transitions,
        "pairs": er.pairs, "evaluations": er.pairs * 3 + er.per_state_checks, "equal_pairs": er.equal_pairs, "equal_pairs_different_shape": er.equal_pairs_different_shape,
        "strict_prefix_pairs": er.strict_prefix_pairs, "distinct_outcomes": er.equal_pairs_different_shape + er.strict_prefix_pairs,
        "exhaustive": rep.exhaustive, "cap_hit": rep.cap_hit, "wall_s": er.wall_s + rep.wall_s, "samples": sample.into_iter().collect::<Vec<_>>(), "found": found,
    })
}

fn run_eq_engine<P: PType>(spec: &Value) -> Value {
    if s(spec, "kind", "map") == "set" {
        eq_typed::<P, PrefixSet<P>>(spec, "set")
    } else {
        eq_typed::<P, PrefixMap<P, u32>>(spec, "map")
    }
}

fn run_algebra_engine<P: PType>(spec: &Value) -> Value {
    let t0 = std::time::Instant::now();
    let r = crate::algebra::run_algebra::<P>(u(spec, "seed", 0), spec.get("deep").and_then(|x| x.as_bool()).unwrap_or(false));
    let found: Vec<Value> = r
        .found
        .iter()
        .map(|(v, a, b, occ)| json!({"property": v.prop, "site": v.site, "cond": v.cond, "detail": v.detail, "at": "algebra", "occurrences": occ, "history": [], "extra": {"a": gk_json(*a), "b": gk_json(*b)}}))
        .collect();
    json!({
        "spec": spec, "engine": "algebra", "run": format!("algebra {}", P::NAME),
        "values": r.values, "pairs": r.pairs, "sampled_pairs": r.sampled_pairs, "evaluations": r.evaluations, "distinct_outcomes": r.values + r.pairs,
        "outcome_classes": r.outcome_classes, "exhaustive": true, "wall_s": t0.elapsed().as_secs_f64(),
        "samples": [format!("{}: all lengths 0..={} x first differing bit x head patterns x host-bit patterns; is_bit_set for every index 0..=255", P::NAME, P::WIDTH)],
        "found": found,
    })
}

fn replay_algebra<P: PType>(rp: &Value) -> Option<Vec<crate::viol::Viol>> {
    Some(crate::algebra::replay_pair::<P>(gk_from(&rp["extra"]["a"]), gk_from(&rp["extra"]["b"])))
}

/// fixed histories over the chain of ALL prefix lengths 0..=width of one address (paths of
/// width+1 nodes): every build order / removal pattern below, T0 on every step, observers at the end
fn chain_histories(uni: &Universe) -> Vec<(String, Vec<Op>)> {
    use crate::ops::K;
    let n = uni.keys.len() as u8;
    let ins = |k: u8| Op { kind: K::Insert, key: k, rep: k % 2, arg: 0 };
    let rkt = |k: u8| Op { kind: K::RemoveKeepTree, key: k, rep: 0, arg: 0 };
    let rem = |k: u8| Op { kind: K::Remove, key: k, rep: (k + 1) % 2, arg: 0 };
    let asc: Vec<Op> = (0..n).map(ins).collect();
    let desc: Vec<Op> = (0..n).rev().map(ins).collect();
    let mut v: Vec<(String, Vec<Op>)> = vec![("ascending".into(), asc.clone()), ("descending".into(), desc.clone())];
    let mut h = asc.clone();
    h.extend((0..n).filter(|k| k % 2 == 0).map(rkt));
    v.push(("ascending, then remove_keep_tree of every even length".into(), h));
    let mut h = asc.clone();
    h.extend((0..n - 1).map(rkt));
    v.push(("ascending, then remove_keep_tree of everything but the full-length prefix".into(), h));
    let mut h = desc.clone();
    h.extend((1..n).map(rkt));
    v.push(("descending, then remove_keep_tree of everything but the zero-length prefix".into(), h));
    let mut h = desc.clone();
    h.extend((0..n).filter(|k| k % 2 == 1).map(rem));
    v.push(("descending, then remove of every odd length".into(), h));
    let mut h = asc.clone();
    h.extend((0..n).rev().map(rem));
    v.push(("ascending, then remove of everything, longest first".into(), h));
    v.push(("only the zero-length and the full-length prefix".into(), vec![ins(n - 1), ins(0)]));
    v.push(("only the full-length prefix".into(), vec![ins(n - 1)]));
    v.push(("the two longest".into(), vec![ins(n - 2), ins(n - 1)]));
    let mut h: Vec<Op> = (0..n).map(|k| Op { kind: K::EntryOrInsert, key: k, rep: 1, arg: 0 }).collect();
    h.push(Op { kind: K::Retain, key: 0, rep: 0, arg: 0 });
    v.push(("entry API ascending, then retain nothing".into(), h));
    v
}

fn histories_typed<P: PType>(spec: &Value) -> Value {
    let t0 = std::time::Instant::now();
    let uni = uni_of::<P>(spec);
    let names: Vec<String> = spec.get("observers").and_then(|x| x.as_array()).map(|a| a.iter().filter_map(|x| x.as_str().map(|s| s.to_string())).collect()).unwrap_or_default();
    let observers = crate::registry::map_observers::<P>(&names);
    let hs = chain_histories(&uni);
    let (mut transitions, mut evals) = (0u64, 0u64);
    let mut found: Vec<Value> = vec![];
    let mut seen = std::collections::HashSet::new();
    for (label, h) in &hs {
        let (vs, t, e) = crate::registry::run_history_checked::<PrefixMap<P, u32>>(&uni, h, &observers, 0);
        transitions += t;
        evals += e;
        for (v, upto, at) in vs {
            if seen.insert((v.prop, v.site.clone(), v.cond.clone())) {
                found.push(json!({"property": v.prop, "site": v.site, "cond": v.cond, "detail": format!("[{label}] {}", v.detail), "at": at, "occurrences": 1, "history": ops_json(&h[..upto], &uni)}));
            }
        }
    }
    json!({
        "spec": spec, "engine": "histories", "run": format!("histories map {} {}", P::NAME, uni.name),
        "states": hs.len(), "shape_states": hs.len(), "transitions": transitions, "observer_evals": evals, "distinct_outcomes": hs.len(),
        "exhaustive": true, "wall_s": t0.elapsed().as_secs_f64(), "n_keys": uni.keys.len(), "n_queries": uni.queries.len(),
        "samples": [format!("{}: {}", hs[2].0, hs[2].1.iter().take(4).map(|o| o.describe(&uni)).collect::<Vec<_>>().join(" ; "))], "found": found,
    })
}

fn replay_histories<P: PType>(rp: &Value) -> Option<Vec<crate::viol::Viol>> {
    let uni = uni_of::<P>(&rp["spec"]);
    let hist = ops_from_json(&rp["history"]);
    let at = rp["at"].as_str().unwrap_or("transition");
    let names: Vec<String> = at.strip_prefix("observer:").map(|n| vec![n.to_string()]).unwrap_or_default();
    let observers = crate::registry::map_observers::<P>(&names);
    let (vs, _, _) = crate::registry::run_history_checked::<PrefixMap<P, u32>>(&uni, &hist, &observers, 0);
    Some(vs.into_iter().map(|x| x.0).collect())
}

pub fn run_engine(name: &str, spec: &Value, _idx: usize) -> Value {
    let ptype = s(spec, "ptype", "u8").to_string();
    match name {
        "pairs" => dispatch_ptype!(ptype.as_str(), run_pairs_engine(spec)),
        "selfpairs" => dispatch_ptype!(ptype.as_str(), run_self_engine(spec)),
        "eqpairs" => dispatch_ptype!(ptype.as_str(), run_eq_engine(spec)),
        "algebra" => dispatch_ptype!(ptype.as_str(), run_algebra_engine(spec)),
        "histories" => dispatch_ptype!(ptype.as_str(), histories_typed(spec)),
        other => json!({"machinery_error": format!("unknown engine {other}")}),
    }
}

fn replay_pairs_typed<P: PType, A: Side<P>, B: Side<P>>(rp: &Value) -> Option<Vec<crate::viol::Viol>> {
    let spec = &rp["spec"];
    let uni = uni_of::<P>(spec);
    let ko = KeyOpts { reps: false, layout: false, no_free: true };
    let ha = ops_from_json(&rp["history"]);
    let hb = ops_from_json(&rp["extra"]["b_history"]);
    let a = rebuild::<A>(&uni, &ha, ko)?;
    let b = rebuild::<B>(&uni, &hb, ko)?;
    let (qa, qb) = (gk_from(&rp["extra"]["root_a"]), gk_from(&rp["extra"]["root_b"]));
    let mut am = a.map.clone();
    let mut bm = b.map.clone();
    let mut sa = a.model.entries();
    let mut sb = b.model.entries();
    let mut cnt = pairs::PairCounters::default();
    let r = guarded(|| pairs::eval_root_pair::<P, A, B>(&mut am, &mut bm, &mut sa, &mut sb, with_rep(qa, 1, uni.width), with_rep(qb, 0, uni.width), uni.width, 1_000_000, &mut cnt));
    Some(match r {
        Ok(v) => pairs::add_repr_dependence::<P, A, B>(v, &ha, &hb, qa, qb, &uni),
        Err(msg) => vec![crate::viol::Viol::new("C20", "set operation", "panic", msg)],
    })
}

fn replay_pairs<P: PType>(rp: &Value) -> Option<Vec<crate::viol::Viol>> {
    match (rp["extra"]["left_kind"].as_str().unwrap_or("map"), rp["extra"]["right_kind"].as_str().unwrap_or("map")) {
        ("set", "set") => replay_pairs_typed::<P, PrefixSet<P>, PrefixSet<P>>(rp),
        ("set", _) => replay_pairs_typed::<P, PrefixSet<P>, PrefixMap<P, u32>>(rp),
        (_, "set") => replay_pairs_typed::<P, PrefixMap<P, u32>, PrefixSet<P>>(rp),
        _ => replay_pairs_typed::<P, PrefixMap<P, u32>, PrefixMap<P, u32>>(rp),
    }
}

fn pstate_of<S: Side<P>, P: PType>(uni: &Universe, hist: &[Op]) -> Option<PState<S>> {
    let st = rebuild::<S>(uni, hist, KeyOpts { reps: false, layout: false, no_free: true })?;
    let roots: Vec<GK> = uni.queries.iter().copied().filter(|q| crate::ops::top_node_under(st.walk(), *q).is_some()).collect();
    Some(PState { sut: st.map, model: st.model, hist: hist.to_vec(), roots })
}

fn replay_eq_typed<P: PType, S: crate::pairs2::EqSide<P>>(rp: &Value) -> Option<Vec<crate::viol::Viol>> {
    let uni = uni_of::<P>(&rp["spec"]);
    let a = pstate_of::<S, P>(&uni, &ops_from_json(&rp["history"]))?;
    let b = pstate_of::<S, P>(&uni, &ops_from_json(&rp["extra"]["b_history"]))?;
    let er = crate::pairs2::run_eq::<P, S>(&[a, b], &uni, 1);
    Some(er.found.into_iter().map(|f| f.0).collect())
}

fn replay_eq<P: PType>(rp: &Value) -> Option<Vec<crate::viol::Viol>> {
    if rp["extra"]["kind"].as_str() == Some("set") {
        replay_eq_typed::<P, PrefixSet<P>>(rp)
    } else {
        replay_eq_typed::<P, PrefixMap<P, u32>>(rp)
    }
}

fn replay_self<P: PType>(rp: &Value) -> Option<Vec<crate::viol::Viol>> {
    let uni = uni_of::<P>(&rp["spec"]);
    let a = pstate_of::<PrefixMap<P, u32>, P>(&uni, &ops_from_json(&rp["history"]))?;
    let sr = crate::pairs2::run_self::<P>(&[a], &uni, 1);
    Some(sr.found.into_iter().map(|f| f.viol).collect())
}

pub fn replay_other(engine: &str, rp: &Value, path: &str) -> i32 {
    let ptype = rp["spec"]["ptype"].as_str().unwrap_or("u8").to_string();
    let run = || -> Option<Vec<crate::viol::Viol>> {
        match engine {
            "pairs" => dispatch_ptype!(ptype.as_str(), replay_pairs(rp)),
            "algebra" => dispatch_ptype!(ptype.as_str(), replay_algebra(rp)),
            "eqpairs" => dispatch_ptype!(ptype.as_str(), replay_eq(rp)),
            "histories" => dispatch_ptype!(ptype.as_str(), replay_histories(rp)),
            "selfpairs" => dispatch_ptype!(ptype.as_str(), replay_self(rp)),
            _ => None,
        }
    };
    let (a, b) = (run(), run());
    let (Some(a), Some(b)) = (a, b) else {
        println!("MACHINERY-ERROR cannot replay engine {engine}");
        return 2;
    };
    if a != b {
        println!("MACHINERY-ERROR replay is not deterministic");
        return 2;
    }
    let (prop, site, cond) = (rp["property"].as_str().unwrap_or(""), rp["site"].as_str().unwrap_or(""), rp["cond"].as_str().unwrap_or(""));
    for v in &a {
        println!("observed: {} {} {} :: {}", v.prop, v.site, v.cond, v.detail);
    }
    if a.iter().any(|v| (v.prop == prop || (cond == "panic" && v.prop == "C20")) && v.site == site && v.cond == cond) {
        println!("VIOLATION property={prop} replay={path}");
        1
    } else {
        println!("not reproduced: property={prop} site={site} cond={cond}");
        0
    }
}
