"""[E6] Hold-all-references bodies over every small map / view root / pair of maps (crate /verif/alias).

Two uses of the same exhaustively enumerated case list:
  * native  : plain debug build; the bodies' own oracle (every write through a held reference lands in exactly its
              entry, every specified entry is reached) decides C13.
  * miri    : the same cases executed by the Miri interpreter; its aliasing models (Stacked Borrows, and Tree Borrows
              in the thorough tier) are the oracle for "live mutable references are never aliased" (C14). The
              enumeration is ours and exhaustive within the stated universe; the interpreter only judges each execution.
"""
import json, os, re, subprocess, time

ROOT = os.path.dirname(os.path.abspath(__file__))
CRATE = os.path.join(ROOT, "alias")
BODIES = ["iter_mut", "values_mut", "children_mut", "view.iter_mut+value_mut", "view.into_iter", "split*.into_iter round-robin",
          "split: hold one side, navigate+write the other", "get_mut+get_lpm_mut", "union_mut", "intersection_mut", "difference_mut",
          "covering_difference_mut", "same-map union_mut", "same-map intersection_mut", "same-map difference_mut", "same-map covering_difference_mut"]
MODELS = {"stacked-borrows": "-Zmiri-disable-isolation", "tree-borrows": "-Zmiri-disable-isolation -Zmiri-tree-borrows"}
SLICES = 16


def _env(flags=None):
    env = dict(os.environ, CARGO_NET_OFFLINE="true", CARGO_TARGET_DIR=os.path.join(ROOT, "target", "alias"))  # kept apart from the harness builds
    env.pop("RUSTFLAGS", None)
    if flags is not None:
        env["MIRIFLAGS"] = flags
    return env


def _native_build():
    r = subprocess.run(["cargo", "build", "--offline"], cwd=CRATE, env=_env(), stdout=subprocess.PIPE, stderr=subprocess.STDOUT, text=True)
    return r.returncode, r.stdout


def _counts(tier):
    r = subprocess.run([os.path.join(ROOT, "target", "alias", "debug", "va"), "list"], stdout=subprocess.PIPE, text=True)
    per, cur, tot = {}, None, {}
    for line in r.stdout.splitlines():
        m = re.match(r"(quick|thorough) cases=(\d+)", line)
        if m:
            cur = m.group(1)
            tot[cur] = int(m.group(2))
            per[cur] = {}
            continue
        m = re.match(r"\s+(\d+) (.*)", line)
        if m and cur:
            per[cur][m.group(2)] = int(m.group(1))
    return tot.get(tier, 0), per.get(tier, {})


def _last_case(err):
    cs = re.findall(r"^CASE (\d+) (\d+) (\d+) (\d+) (\d+) (\d+)$", err, re.M)
    return [int(x) for x in cs[-1]] if cs else None


def _classify(out, err, rc=0):
    """-> None (clean) | (kind, detail)"""
    if rc == 124:
        return "no-return", "the case did not finish within the time limit (every case takes milliseconds natively)"
    if "Undefined Behavior" in err:
        i = err.index("error: Undefined Behavior")
        return "miri-UB", err[i:i + 1800]
    if "panicked at" in err:
        i = err.index("panicked at")
        return ("native-alias" if "two live mutable references to one entry" in err else "assert"), err[max(0, i - 80):i + 900]
    if "DONE cases=" in out:
        return None
    return "engine", err[-1500:]


def _found(case, kind, detail, model):
    body = BODIES[case[0]]
    prop = "C14" if kind in ("miri-UB", "native-alias") else "C13"
    what = {"no-return": "the library call did not return",
            "miri-UB": f"the interpreter ({model}) reports undefined behaviour: a live mutable reference handed out by the library was aliased",
            "native-alias": "the library handed out two mutable references to the same entry (addresses compared)",
            "assert": "the body's own oracle failed"}[kind]
    return {"property": prop, "site": "alias:" + body, "cond": kind, "detail": f"{body}: {what}. case body={case[0]} mode={case[1]} a={case[2]:#b} b={case[3]:#b} ra={case[4]} rb={case[5]}\n{detail}",
            "at": "hold-all body", "occurrences": 1, "history": [], "extra": {"case": case, "model": model}}


def _run_slices(cmd_of, cwd, env, wdir, tag, timeout_s):
    """start all slices with stdout/stderr in files (a pipe would block a slice after 64 kB of CASE lines); -> [(returncode, out, err)];
    a slice that is still running after timeout_s is killed and reported with returncode 124"""
    d = os.path.join(wdir, "alias")
    os.makedirs(d, exist_ok=True)
    procs = []
    for i in range(SLICES):
        fo, fe = open(os.path.join(d, f"{tag}_{i}.out"), "w"), open(os.path.join(d, f"{tag}_{i}.err"), "w")
        procs.append((subprocess.Popen(cmd_of(i), cwd=cwd, env=env, stdout=fo, stderr=fe, start_new_session=True), fo, fe))
    res = []
    deadline = time.time() + timeout_s
    for p, fo, fe in procs:
        rc = None
        try:
            rc = p.wait(timeout=max(1.0, deadline - time.time()))
        except subprocess.TimeoutExpired:
            try:
                os.killpg(p.pid, 9)
            except OSError:
                pass
            p.wait()
            rc = 124
        fo.close()
        fe.close()
        res.append((rc, open(fo.name).read(), open(fe.name).read()[-200000:]))
    return res


def run_native(tier, seed, wdir):
    t0 = time.time()
    tier = "thorough"  # native execution is cheap (2 s): both tiers run the complete case list
    code, out = _native_build()
    if code != 0:
        return {"engine": "alias", "machinery_error": "the alias crate does not build: " + out[-1500:], "found": []}
    va = os.path.join(ROOT, "target", "alias", "debug", "va")
    total, per = _counts(tier)
    found, done = [], 0
    for rc, o, e in _run_slices(lambda i: [va, "run", tier, str(i), str(SLICES)], None, None, wdir, "native", 300):
        c = _classify(o, e, rc)
        if c is None:
            done += int(re.search(r"DONE cases=(\d+)", o).group(1))
            continue
        case = _last_case(e)
        if c[0] == "engine" or case is None:
            return {"engine": "alias", "machinery_error": f"alias body runner exited with {rc}: {c[1][-600:]}", "found": []}
        found.append(_found(case, c[0], c[1], "native"))
    spec = {"engine": "alias", "mode": "native", "tier": tier}
    return {"engine": "alias", "run": f"hold-all-references bodies, native build ({tier} case list)", "spec": spec, "evaluations": done if not found else total, "distinct_outcomes": total,
            "cases_per_body": per, "exhaustive": True, "wall_s": time.time() - t0, "found": _dedup(found),
            "samples": [{"case": "body=8 (union_mut) mode=0 a=0b11111 b=0b11111 roots=whole/whole", "meaning": "all items of union_mut held, every held reference written before each next()"}]}


def _dedup(found):
    seen, out = set(), []
    for f in found:
        k = (f["property"], f["site"], f["cond"])
        if k not in seen:
            seen.add(k)
            out.append(f)
    return out


def run_miri(tier, seed, wdir):
    t0 = time.time()
    r = subprocess.run(["cargo", "+nightly", "miri", "--version"], cwd=CRATE, env=_env(), stdout=subprocess.PIPE, stderr=subprocess.STDOUT, text=True)
    if r.returncode != 0:
        return {"engine": "alias", "machinery_error": "cargo +nightly miri is not usable: " + r.stdout[-800:], "found": []}
    miri_version = r.stdout.strip()
    code, out = _native_build()
    if code != 0:
        return {"engine": "alias", "machinery_error": "the alias crate does not build: " + out[-1500:], "found": []}
    # the same case list natively first (2 s): a case that fails or hangs natively would fail or hang in the interpreter as well
    pre = run_native(tier, seed, wdir)
    if "machinery_error" in pre:
        return pre
    if pre["found"]:
        pre["run"] = "hold-all-references bodies: the native pre-run already fails; the interpreter was not started"
        return pre
    total, per = _counts(tier)
    # Stacked Borrows judges the whole case list of the tier; Tree Borrows (thorough tier only) judges the quick list
    models = ["stacked-borrows"] if tier == "quick" else ["stacked-borrows", "tree-borrows"]
    list_of = {"stacked-borrows": tier, "tree-borrows": "quick"}
    # build once (sysroot + crate) so that the slices only wait for the cargo lock
    b = subprocess.run(["cargo", "+nightly", "miri", "run", "--offline", "--", "noop"], cwd=CRATE, env=_env(MODELS["stacked-borrows"]), stdout=subprocess.PIPE, stderr=subprocess.STDOUT, text=True)
    if b.returncode != 0:
        return {"engine": "alias", "machinery_error": "the alias crate does not build under miri: " + b.stdout[-1500:], "found": []}
    found, done = [], 0
    for model in models:
        for rc, o, e in _run_slices(lambda i: ["cargo", "+nightly", "miri", "run", "--offline", "--", "run", list_of[model], str(i), str(SLICES)], CRATE, _env(MODELS[model]), wdir, model, 6 * 3600):
            c = _classify(o, e, rc)
            if c is None:
                done += int(re.search(r"DONE cases=(\d+)", o).group(1))
                continue
            case = _last_case(e)
            if c[0] == "engine" or case is None:
                return {"engine": "alias", "machinery_error": f"miri run exited with {rc} without a verdict: {c[1][-800:]}", "found": []}
            found.append(_found(case, c[0], c[1], model))
    spec = {"engine": "alias", "mode": "miri", "tier": tier, "models": models}
    return {"engine": "alias", "run": f"hold-all-references bodies executed by Miri (Stacked Borrows: {tier} case list" + ("; Tree Borrows: quick case list)" if tier != "quick" else ")"), "spec": spec,
            "evaluations": done if not found else total, "distinct_outcomes": total, "cases_per_body": per, "interpreter": miri_version,
            "exhaustive": True, "wall_s": time.time() - t0, "found": _dedup(found),
            "samples": [{"case": "body=6 mode=0 a=0b1111111 ra=3 rb=1", "meaning": "split at the root, all references of the right half held and written while the left half is navigated with find/find_exact/find_lpm/left/right/set"}]}


def replay(path):
    rp = json.load(open(path))
    case, model = rp["extra"]["case"], rp["extra"]["model"]
    verdicts = []
    for _ in range(2):
        if model == "native":
            code, out = _native_build()
            if code != 0:
                print("MACHINERY-ERROR the alias crate does not build")
                return 2
            try:
                r = subprocess.run([os.path.join(ROOT, "target", "alias", "debug", "va"), "case"] + [str(x) for x in case], stdout=subprocess.PIPE, stderr=subprocess.PIPE, text=True, timeout=60)
            except subprocess.TimeoutExpired:
                verdicts.append("no-return")
                last = "the case does not finish within 60 s"
                continue
        else:
            r = subprocess.run(["cargo", "+nightly", "miri", "run", "--offline", "--", "case"] + [str(x) for x in case], cwd=CRATE, env=_env(MODELS[model]),
                               stdout=subprocess.PIPE, stderr=subprocess.PIPE, text=True)
        c = _classify(r.stdout, r.stderr)
        if c is not None and c[0] == "engine":
            print("MACHINERY-ERROR replay did not produce a verdict:\n" + c[1])
            return 2
        verdicts.append(None if c is None else c[0])
        if c is not None:
            last = c[1]
    if verdicts[0] != verdicts[1]:
        print("MACHINERY-ERROR replay is not deterministic")
        return 2
    if verdicts[0] is None:
        print("not reproduced: the case runs clean")
        return 0
    print(last[:1500])
    print(f"VIOLATION property={rp['property']} replay={path}")
    return 1


if __name__ == "__main__":
    import sys
    tier = sys.argv[2] if len(sys.argv) > 2 else "quick"
    res = (run_miri if sys.argv[1] == "miri" else run_native)(tier, 0, os.path.join(ROOT, ".work", "alias_selftest"))
    print({k: v for k, v in res.items() if k not in ("found", "samples")})
    for f in res["found"]:
        print("FOUND", f["property"], f["site"], f["cond"])
