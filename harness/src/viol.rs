//! Violations, panic capture and the pending-call watchdog.

use std::cell::RefCell;
use std::panic::{catch_unwind, AssertUnwindSafe};
use std::sync::atomic::{AtomicBool, AtomicU64, Ordering};
use std::sync::Mutex;
use std::time::{Duration, Instant};

#[derive(Clone, Debug, PartialEq, Eq, PartialOrd, Ord)]
pub struct Viol {
    /// property id, e.g. "C04"
    pub prop: &'static str,
    /// API call or check site, e.g. "TrieViewMut::set"
    pub site: String,
    /// condition class (stable, used for known-finding signatures), e.g. "len-mismatch"
    pub cond: String,
    /// free text: expected / got
    pub detail: String,
}

impl Viol {
    pub fn new(prop: &'static str, site: impl Into<String>, cond: impl Into<String>, detail: impl Into<String>) -> Self {
        Viol {
            prop,
            site: site.into(),
            cond: cond.into(),
            detail: detail.into(),
        }
    }
}

/// push a violation if `ok` is false
#[macro_export]
macro_rules! expect {
    ($out:expr, $ok:expr, $prop:expr, $site:expr, $cond:expr, $($fmt:tt)*) => {
        if !($ok) {
            $out.push($crate::viol::Viol::new($prop, $site, $cond, format!($($fmt)*)));
        }
    };
}

thread_local! {
    static LAST_PANIC: RefCell<Option<String>> = const { RefCell::new(None) };
}

static HOOK_INSTALLED: AtomicBool = AtomicBool::new(false);

/// Install a panic hook that records the message per thread instead of printing it.
pub fn install_quiet_panic_hook() {
    if HOOK_INSTALLED.swap(true, Ordering::SeqCst) {
        return;
    }
    let default = std::panic::take_hook();
    std::panic::set_hook(Box::new(move |info| {
        if std::env::var_os("VERIF_LOUD_PANICS").is_some() {
            default(info);
        }
        let msg = if let Some(s) = info.payload().downcast_ref::<&str>() {
            s.to_string()
        } else if let Some(s) = info.payload().downcast_ref::<String>() {
            s.clone()
        } else {
            "<non-string panic payload>".to_string()
        };
        let loc = info
            .location()
            .map(|l| format!("{}:{}", l.file(), l.line()))
            .unwrap_or_default();
        LAST_PANIC.with(|p| *p.borrow_mut() = Some(format!("{msg} @ {loc}")));
    }));
}

/// Run `f`, returning `Err(message)` if it unwinds.
pub fn guarded<R>(f: impl FnOnce() -> R) -> Result<R, String> {
    match catch_unwind(AssertUnwindSafe(f)) {
        Ok(r) => Ok(r),
        Err(_) => Err(LAST_PANIC
            .with(|p| p.borrow_mut().take())
            .unwrap_or_else(|| "<panic>".into())),
    }
}

// ------------------------------------------------------------------------------------------------
// pending-call watchdog
// ------------------------------------------------------------------------------------------------

pub const MAX_WORKERS: usize = 64;

/// what a worker is executing right now
#[derive(Clone)]
pub struct PendingInfo {
    pub run: String,
    pub hist: Option<std::sync::Arc<crate::explore::HistNode>>,
    pub op: Option<crate::ops::Op>,
    pub at: &'static str,
}

pub struct Pending {
    since_ms: [AtomicU64; MAX_WORKERS],
    /// incremented at every begin: identifies one pending batch
    seq: [AtomicU64; MAX_WORKERS],
    /// kernel thread id of the worker that owns the slot right now
    tid: [AtomicU64; MAX_WORKERS],
    what: [Mutex<Option<PendingInfo>>; MAX_WORKERS],
    epoch: Instant,
}

static PENDING: std::sync::OnceLock<Pending> = std::sync::OnceLock::new();

fn pending() -> &'static Pending {
    PENDING.get_or_init(|| Pending {
        since_ms: std::array::from_fn(|_| AtomicU64::new(0)),
        seq: std::array::from_fn(|_| AtomicU64::new(0)),
        tid: std::array::from_fn(|_| AtomicU64::new(0)),
        what: std::array::from_fn(|_| Mutex::new(None)),
        epoch: Instant::now(),
    })
}

thread_local! {
    static CUR_WORKER: std::cell::Cell<usize> = const { std::cell::Cell::new(usize::MAX) };
    static MY_TID: std::cell::Cell<u64> = const { std::cell::Cell::new(0) };
}

fn my_tid() -> u64 {
    MY_TID.with(|t| {
        if t.get() == 0 {
            t.set(unsafe { libc::syscall(libc::SYS_gettid) } as u64);
        }
        t.get()
    })
}

/// CPU time (user + system, in seconds) consumed so far by the thread `tid` of this process;
/// None if the thread does not exist any more
fn thread_cpu_s(tid: u64) -> Option<f64> {
    let s = std::fs::read_to_string(format!("/proc/self/task/{tid}/stat")).ok()?;
    // fields after the last ')' : state is field 3, utime 14, stime 15
    let rest = &s[s.rfind(')')? + 2..];
    let f: Vec<&str> = rest.split_whitespace().collect();
    let ut: f64 = f.get(11)?.parse().ok()?;
    let st: f64 = f.get(12)?.parse().ok()?;
    let hz = unsafe { libc::sysconf(libc::_SC_CLK_TCK) } as f64;
    Some((ut + st) / if hz > 0.0 { hz } else { 100.0 })
}

type StallFn = Box<dyn Fn(Option<PendingInfo>, &'static str) + Send + Sync>;
static ON_CRASH: std::sync::OnceLock<StallFn> = std::sync::OnceLock::new();

extern "C" fn on_fatal_signal(_sig: libc::c_int) {
    // A stack overflow (or another fatal memory fault) inside a library call: report the pending
    // call like a stall. Best effort: we are on the alternate signal stack and about to exit.
    let w = CUR_WORKER.with(|c| c.get());
    if let Some(f) = ON_CRASH.get() {
        let mut info = None;
        if w != usize::MAX {
            if let Ok(g) = pending().what[w % MAX_WORKERS].try_lock() {
                info = g.clone();
            }
        }
        f(info, "stack overflow or memory fault");
    }
    unsafe { libc::_exit(4) };
}

/// Report a stack overflow / memory fault in a worker thread through `on_crash` (which is expected
/// to write the counterexample and exit the process).
pub fn install_crash_handler(on_crash: impl Fn(Option<PendingInfo>, &'static str) + Send + Sync + 'static) {
    let _ = ON_CRASH.set(Box::new(on_crash));
    unsafe {
        let mut sa: libc::sigaction = std::mem::zeroed();
        sa.sa_sigaction = on_fatal_signal as *const () as usize;
        sa.sa_flags = libc::SA_ONSTACK;
        libc::sigemptyset(&mut sa.sa_mask);
        libc::sigaction(libc::SIGSEGV, &sa, std::ptr::null_mut());
        libc::sigaction(libc::SIGBUS, &sa, std::ptr::null_mut());
    }
}

// ------------------------------------------------------------------------------------------------
// runaway-allocation guard: a global allocator that counts the bytes a worker thread allocates
// within ONE pending batch of library calls. A batch normally allocates kilobytes to megabytes; a
// library call that loops while pushing to a vector (e.g. on a cyclic structure) would otherwise
// end in an out-of-memory kill of the whole engine, which is a broken check instead of a verdict.
// ------------------------------------------------------------------------------------------------

thread_local! {
    static BATCH_BYTES: std::cell::Cell<u64> = const { std::cell::Cell::new(0) };
    static REPORTING: std::cell::Cell<bool> = const { std::cell::Cell::new(false) };
}

/// cumulative bytes one batch may allocate before it is reported as diverging
pub const BATCH_ALLOC_LIMIT: u64 = 4 << 30;

pub struct GuardedAlloc;

unsafe impl std::alloc::GlobalAlloc for GuardedAlloc {
    unsafe fn alloc(&self, l: std::alloc::Layout) -> *mut u8 {
        note_alloc(l.size() as u64);
        unsafe { std::alloc::System.alloc(l) }
    }
    unsafe fn dealloc(&self, p: *mut u8, l: std::alloc::Layout) {
        unsafe { std::alloc::System.dealloc(p, l) }
    }
    unsafe fn alloc_zeroed(&self, l: std::alloc::Layout) -> *mut u8 {
        note_alloc(l.size() as u64);
        unsafe { std::alloc::System.alloc_zeroed(l) }
    }
    unsafe fn realloc(&self, p: *mut u8, l: std::alloc::Layout, n: usize) -> *mut u8 {
        note_alloc(n as u64);
        unsafe { std::alloc::System.realloc(p, l, n) }
    }
}

#[inline]
fn note_alloc(n: u64) {
    let _ = BATCH_BYTES.try_with(|b| {
        let v = b.get().saturating_add(n);
        b.set(v);
        if v > BATCH_ALLOC_LIMIT && CUR_WORKER.try_with(|c| c.get()).unwrap_or(usize::MAX) != usize::MAX {
            let already = REPORTING.try_with(|r| r.replace(true)).unwrap_or(true);
            if !already {
                let w = CUR_WORKER.with(|c| c.get());
                if pending().since_ms[w % MAX_WORKERS].load(Ordering::SeqCst) != 0 {
                    if let Some(f) = ON_CRASH.get() {
                        let info = pending().what[w % MAX_WORKERS].try_lock().ok().and_then(|g| g.clone());
                        f(info, "runaway allocation (more than 4 GB allocated inside one batch of library calls)");
                    }
                }
                let _ = REPORTING.try_with(|r| r.set(false));
                b.set(0);
            }
        }
    });
}

/// mark that worker `w` starts a library call batch
pub fn pending_begin(w: usize, what: PendingInfo) {
    CUR_WORKER.with(|c| c.set(w));
    BATCH_BYTES.with(|b| b.set(0));
    let p = pending();
    let i = w % MAX_WORKERS;
    *p.what[i].lock().unwrap() = Some(what);
    p.tid[i].store(my_tid(), Ordering::SeqCst);
    p.seq[i].fetch_add(1, Ordering::SeqCst);
    p.since_ms[i].store(p.epoch.elapsed().as_millis() as u64 + 1, Ordering::SeqCst);
}

pub fn pending_end(w: usize) {
    pending().since_ms[w % MAX_WORKERS].store(0, Ordering::SeqCst);
}

/// Start the watchdog thread. A batch of library calls counts as diverging when it has been
/// pending for more than 5 s of wall time AND the thread that executes it has since burnt more than
/// `limit` of CPU time. (Wall time alone is not used: on an oversubscribed or memory-starved machine
/// a healthy thread can be off the CPU for a long time, and that must never become a verdict.)
pub fn start_watchdog(limit: Duration, on_stall: impl Fn(PendingInfo) + Send + 'static) {
    let p = pending();
    std::thread::spawn(move || {
        // per slot: (sequence number under observation, cpu seconds when the observation started)
        let mut watch: Vec<Option<(u64, f64)>> = vec![None; MAX_WORKERS];
        loop {
            std::thread::sleep(Duration::from_millis(1000));
            let now = p.epoch.elapsed().as_millis() as u64 + 1;
            for w in 0..MAX_WORKERS {
                let s = p.since_ms[w].load(Ordering::SeqCst);
                if s == 0 || now.saturating_sub(s) < 5000 {
                    watch[w] = None;
                    continue;
                }
                let seq = p.seq[w].load(Ordering::SeqCst);
                let tid = p.tid[w].load(Ordering::SeqCst);
                let Some(cpu) = thread_cpu_s(tid) else {
                    watch[w] = None;
                    continue;
                };
                match watch[w] {
                    Some((q, cpu0)) if q == seq => {
                        if cpu - cpu0 > limit.as_secs_f64() && p.seq[w].load(Ordering::SeqCst) == seq && p.since_ms[w].load(Ordering::SeqCst) == s {
                            if let Some(what) = p.what[w].lock().unwrap().clone() {
                                on_stall(what);
                            }
                        }
                    }
                    _ => watch[w] = Some((seq, cpu)),
                }
            }
        }
    });
}
