#!/bin/sh
for spec in "$@"; do python3 /verif/tools/refactest.py $spec 2>&1 | tail -3; done
