#!/bin/sh
# Build the verification harness offline from files on disk only.
set -e
cd "$(dirname "$0")"
export CARGO_NET_OFFLINE=true
export CARGO_TARGET_DIR="$(pwd)/target"
(cd harness && cargo build --release --offline --bin vh)
echo "setup ok"
(cd sched && cargo build --release --offline)
(cd alias && CARGO_TARGET_DIR="$(pwd)/../target/alias" cargo build --offline)
echo "setup complete"
